#!/venv/bin/python
"""Entry point of the NSL runtime-monitoring checks.

  run.py --setup
  run.py Cxx [--tier quick|thorough] [--seed N] [--shards N]
  run.py Cxx --replay FILE
  run.py --worker ...         (internal: one shard)

VERIF_SEED and VERIF_TIER in the environment are honoured (command line wins).
Exit: 0 held on everything observed / 1 violation (VIOLATION line) / 2 inconclusive.
"""
import argparse
import os
import sys

HERE = os.path.dirname(os.path.abspath(__file__))
sys.path.insert(0, HERE)

from nslverif import bootstrap  # noqa: E402


def main():
    if len(sys.argv) > 1 and sys.argv[1] == "--worker":
        bootstrap.setup_paths()
        from nslverif import driver
        driver.worker_main(sys.argv[2:])
        return 0
    ap = argparse.ArgumentParser()
    ap.add_argument("check", nargs="?")
    ap.add_argument("--setup", action="store_true")
    ap.add_argument("--tier", default=os.environ.get("VERIF_TIER", "quick"), choices=["quick", "thorough"])
    ap.add_argument("--seed", type=int, default=int(os.environ.get("VERIF_SEED", "0") or 0))
    ap.add_argument("--shards", type=int, default=None)
    ap.add_argument("--replay", default=None)
    a = ap.parse_args()
    if a.setup:
        installed = bootstrap.ensure_deps()
        bootstrap.setup_paths()
        from nslverif import nslapi
        nslapi.ensure_parser_tables()
        print("setup ok (installed: %s)" % (", ".join(installed) or "nothing needed"))
        return 0
    if not a.check:
        ap.error("check id required")
    from nslverif import driver
    return driver.run_check(a.check, a.tier, a.seed, a.replay, a.shards)


if __name__ == "__main__":
    sys.exit(main())
