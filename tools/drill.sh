#!/bin/bash
# drill.sh <patch.diff | rev:<commit>> <check id> [tier]   — run a check against a scratch copy of /repo with a change applied
set -e
CHANGE="$1"; CHECK="$2"; TIER="${3:-quick}"
HERE="$(cd "$(dirname "$0")/.." && pwd)"
case "$CHANGE" in rev:*|/*) ;; *) CHANGE="$(pwd)/$CHANGE";; esac
D=$(mktemp -d /tmp/drill_XXXXXX)
trap 'rm -rf "$D"' EXIT
git -C /repo archive HEAD | tar -x -C "$D"
if [[ "$CHANGE" == rev:* ]]; then
  git -C /repo show "${CHANGE#rev:}" | (cd "$D" && patch -R -p1 -s --binary)
else
  (cd "$D" && patch -p1 -s --binary < "$CHANGE")
fi
if [ -n "$DRILL_TESTS" ]; then (cd "$D" && env -u NSL_VERIF /venv/bin/python -m pytest -q -p no:cacheprovider -x 2>&1 | tail -2); fi
cd "$HERE"
set +e
NSL_VERIF_EVIDENCE_DIR="$D/_evidence" NSL_VERIF_REPO="$D" /venv/bin/python run.py "$CHECK" --tier "$TIER" 2>&1 | tail -${DRILL_TAIL:-8}
echo "exit=${PIPESTATUS[0]}"
