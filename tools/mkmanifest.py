#!/venv/bin/python
"""Regenerates MANIFEST.json from the check modules that exist (nslverif/checks/cXX.py)."""
import json, os, sys, importlib
HERE = os.path.dirname(os.path.dirname(os.path.abspath(__file__)))
sys.path.insert(0, HERE)
from nslverif import bootstrap
bootstrap.setup_paths()
props = [json.loads(l) for l in open(os.path.join(HERE, "properties.jsonl"))]
checks, na = [], []
for p in props:
    cid = p["id"]
    path = os.path.join(HERE, "nslverif", "checks", cid.lower() + ".py")
    if not os.path.exists(path):
        na.append({"property_id": cid, "reason": "check not built yet in this tree (planned, see DESIGN.md section 6); nothing is claimed for it"})
        continue
    m = importlib.import_module("nslverif.checks." + cid.lower())
    checks.append({
        "property_id": cid,
        "quick_cmd": "/venv/bin/python run.py %s --tier quick" % cid,
        "thorough_cmd": "/venv/bin/python run.py %s --tier thorough" % cid,
        "evidence_file": "evidence/%s.json" % cid,
        "replay_cmd_template": "/venv/bin/python run.py %s --replay {path}" % cid,
        "engine": "nslverif",
        "level_claimed": {"category": "exploration", "text": m.LEVEL_TEXT, "design_ref": getattr(m, "DESIGN_REF", "DESIGN.md section 6 / " + cid)},
        "level_note": m.LEVEL_NOTE,
        "technique": m.TECHNIQUE,
    })
man = {
    "version": 1,
    "setup_cmd": "/venv/bin/python run.py --setup",
    "hooks": {
        "guard": "NSL_VERIF",
        "enable": "every check exports NSL_VERIF=1 itself before importing nsl (nslverif/bootstrap.py); nothing is compiled, nsl is imported from /repo's working tree",
        "baseline_off_cmd": "cd /repo && env -u NSL_VERIF /venv/bin/python -m pytest -q -p no:cacheprovider --timeout=900",
        "source_commits": ["3b0c6cf"],
        "add_only": True,
    },
    "engines": [{"name": "nslverif", "path": "nslverif/", "serves_properties": [c["property_id"] for c in checks],
                 "kind_free_text": "runtime monitoring: generated/enumerated workloads run through the real compiler, linker, VM and wasm writer under monitors (VM step observer hook, pass-boundary recorder, contracts on real functions, event-log checkers) with independent oracles (reference interpreter on the generator's own tree, spec tables, from-scratch wasm decoder/validator/interpreter)"}],
    "checks": checks,
    "not_applicable": na,
    "notes": "Exit codes of every command: 0 held on everything observed, 1 violation (VIOLATION line), 2 inconclusive (a monitor observed nothing / watchdog / harness error). Known findings: known_findings.json.",
}
json.dump(man, open(os.path.join(HERE, "MANIFEST.json"), "w"), indent=1)
import jsonschema
jsonschema.validate(man, json.load(open("/root/.vp/MANIFEST.schema.json")))
print("MANIFEST.json: %d checks, %d not_applicable" % (len(checks), len(na)))
