#!/venv/bin/python
"""probe.py 'source' [fn k=v ...]  — compile with the harness, print gate, listing, result."""
import sys, os, json
sys.path.insert(0, os.path.dirname(os.path.dirname(os.path.abspath(__file__))))
from nslverif import nslapi
src = sys.argv[1]
if os.path.exists(src): src = open(src).read()
opt = os.environ.get("OPT") == "1"
o = nslapi.compile_source(src, optimize=opt, wasm=os.environ.get("WASM") == "1")
print("gate:", o.gate, "reject:", o.reject, "post:", o.post_exc)
if o.usable:
    if os.environ.get("LIST"): print(nslapi.listing(o.ir))
    if len(sys.argv) > 2:
        prog = nslapi.link([o.ir]); vm = nslapi.make_vm(prog)
        fn = sys.argv[2]; kw = {}
        for a in sys.argv[3:]:
            k, v = a.split("=", 1)
            if k.startswith("@"): vm.SetGlobal(k[1:], json.loads(v))
            else: kw[k] = json.loads(v)
        try:
            print("result:", vm.Invoke(fn, **kw))
        except Exception as e:
            print("raised:", nslapi.exc_info(e))
    if o.wasm is not None:
        print("wasm:", nslapi.wasm_bytes(o.wasm).hex())
