#!/bin/bash
# fixcommit.sh "<message>" — run the repository's tests with the guard off; commit /repo only if all 82 pass
set -e
cd /repo
R=$(env -u NSL_VERIF /venv/bin/python -m pytest -q -p no:cacheprovider 2>&1 | tail -1)
echo "$R"
case "$R" in
  "82 passed"*) git commit -qam "$1"; git log --oneline | head -1;;
  *) echo "NOT COMMITTED"; exit 1;;
esac
