#!/bin/bash
# sweep.sh <tier> <seed>... — run every registered check (or those in $SWEEP_CHECKS) for each seed; one summary line per run
# (evidence goes to a scratch directory: the registered evidence is written by run.py itself)
TIER="$1"; shift
cd "$(dirname "$0")/.."
export NSL_VERIF_EVIDENCE_DIR="${SWEEP_EVIDENCE_DIR:-/tmp/sweep_evidence_$$}"
for SEED in "$@"; do
  for C in ${SWEEP_CHECKS:-C01 C02 C03 C04 C05 C06 C07 C08 C09 C10 C11 C12 C13 C14 C15 C16 C17 C18 C19 C20}; do
    OUT=$(VERIF_SEED=$SEED /venv/bin/python run.py $C --tier $TIER 2>&1)
    RC=$?
    echo "seed=$SEED rc=$RC $(echo "$OUT" | tail -1)"
    if [ $RC -ne 0 ]; then echo "$OUT" | grep -E "VIOLATION|key=|INCONCLUSIVE" | cut -c1-400 | head -12; fi
  done
done
rm -rf "$NSL_VERIF_EVIDENCE_DIR"
