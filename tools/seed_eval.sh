#!/bin/bash
# seed_eval.sh <prop id> <n> [checks...] — validate a seeded change delivered by a sub-agent in /tmp/seed_<id>/_scratch
# (tests still pass with it; its demo passes on the clean tree and fails with the change), store it under
# /verif/seeded/<id>-<n>/, then run the named checks (default: the property's own) against a scratch copy with it.
ID="$1"; N="$2"; shift 2
CHECKS="${@:-$ID}"
SRC="/tmp/seed_${ID}/_scratch"
DIFF="$SRC/change$N.diff"; DEMO="$SRC/demo$N.py"
[ -f "$DIFF" ] && [ -f "$DEMO" ] || { echo "missing $DIFF or $DEMO"; exit 2; }
D=$(mktemp -d /tmp/seedeval_XXXXXX)
trap 'rm -rf "$D"' EXIT
git -C /repo archive HEAD | tar -x -C "$D"
cd "$D"
# the demo runs from the same relative place it was written for (some derive the project root from their own path)
mkdir -p "$D/_scratch"; cp "$DEMO" "$D/_scratch/"; DEMO_RUN="$D/_scratch/$(basename "$DEMO")"
# demo on the clean tree
PYTHONPATH="$D" env -u NSL_VERIF timeout 300 /venv/bin/python "$DEMO_RUN" > "$D/demo_clean.log" 2>&1; RC_CLEAN=$?
# apply (ignoring generated parser tables)
filterdiff_py='
import sys,re
text=open(sys.argv[1],newline="").read()
parts=re.split(r"(?m)^(?=diff --git )",text)
keep=[p for p in parts if p.strip() and not re.match(r"diff --git a/nsl/(parsetab\.py|parser\.out)",p)]
open(sys.argv[2],"w",newline="").write("".join(keep))
'
/venv/bin/python -c "$filterdiff_py" "$DIFF" "$D/patch.diff"
git init -q . >/dev/null 2>&1
if ! git apply --whitespace=nowarn "$D/patch.diff" 2>"$D/apply.log"; then
  if ! patch -p1 -s --binary < "$D/patch.diff" >>"$D/apply.log" 2>&1; then echo "PATCH DOES NOT APPLY"; cat "$D/apply.log" | head; exit 2; fi
fi
rm -rf .git
TESTS=$(PYTHONPATH="$D" env -u NSL_VERIF /venv/bin/python -m pytest -q -p no:cacheprovider 2>&1 | tail -1)
PYTHONPATH="$D" env -u NSL_VERIF timeout 300 /venv/bin/python "$DEMO_RUN" > "$D/demo_changed.log" 2>&1; RC_CHANGED=$?
rm -rf "$D/_scratch"
echo "tests with change: $TESTS"
echo "demo clean rc=$RC_CLEAN, with change rc=$RC_CHANGED"
case "$TESTS" in "82 passed"*) ;; *) echo "REJECTED: tests do not all pass"; exit 3;; esac
if [ $RC_CLEAN -ne 0 ] || [ $RC_CHANGED -eq 0 ]; then echo "REJECTED: demo does not discriminate"; tail -5 "$D/demo_clean.log" "$D/demo_changed.log"; exit 3; fi
OUT="/verif/seeded/${ID}-${N}"
mkdir -p "$OUT"
cp "$D/patch.diff" "$OUT/patch.diff"; cp "$DEMO" "$OUT/demo.py"
[ -f "$SRC/notes.md" ] && cp "$SRC/notes.md" "$OUT/agent_notes.md"
RESULTS=""
cd /verif
for C in $CHECKS; do
  R=$(NSL_VERIF_EVIDENCE_DIR="$D/_evidence" NSL_VERIF_REPO="$D" /venv/bin/python run.py "$C" --tier quick 2>&1)
  RC=$?
  echo "== $C rc=$RC: $(echo "$R" | tail -1)"
  echo "$R" | grep -E "key=" | cut -c1-260 | head -4
  RESULTS="$RESULTS $C:$RC"
done
echo "$RESULTS" > "$OUT/last_results.txt"
