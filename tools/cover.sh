#!/bin/bash
# cover.sh [checks...] — diagnostic: run the quick tier of the given checks (default all) with line coverage of the nsl
# package switched on in every shard process, then print per file the lines no workload reached.  Guides generator
# widening ("paths the workload never drives"); no verdict depends on it.  Evidence goes to a scratch directory.
cd "$(dirname "$0")/.."
CHECKS="${@:-C01 C02 C03 C04 C05 C06 C07 C08 C09 C10 C11 C12 C13 C14 C15 C16 C17 C18 C19 C20}"
D=$(mktemp -d /tmp/nslcover_XXXXXX)
trap 'rm -rf "$D"' EXIT
for C in $CHECKS; do
  NSL_VERIF_COVER="$D/data" NSL_VERIF_EVIDENCE_DIR="$D/ev" /venv/bin/python run.py "$C" --tier quick 2>&1 | tail -1
done
cd "$D/data" && /venv/bin/python -m coverage combine -q --data-file="$D/all.cov" cov.* >/dev/null 2>&1
/venv/bin/python -m coverage report --data-file="$D/all.cov" -m --skip-empty 2>&1 | cut -c1-400
