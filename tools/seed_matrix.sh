#!/bin/bash
# seed_matrix.sh [ids...] — apply every stored seeded change (seeded/<id>/patch.diff) to a scratch copy of /repo and run
# the quick tier of its property's check there; prints caught / MISSED per change.  (evidence goes to the scratch copy)
cd "$(dirname "$0")/.."
IDS="${@:-$(ls seeded)}"
for S in $IDS; do
  P=$(echo "$S" | cut -d- -f1)
  OUT=$(DRILL_TAIL=3 tools/drill.sh "seeded/$S/patch.diff" "$P" 2>&1)
  RC=$(echo "$OUT" | grep -o "exit=[0-9]*" | tail -1)
  if [ "$RC" = "exit=1" ]; then echo "$S caught by $P"; else echo "$S MISSED by $P ($RC)"; fi
done
