#!/usr/bin/env python3
"""Byte-preserving search/replace for /repo files (keeps CRLF and BOM).

usage: repo_edit.py FILE <<< JSON  where JSON = [[old, new], ...] with LF newlines;
each `old` must occur exactly once.
"""
import sys, json

def main():
    path = sys.argv[1]
    edits = json.load(sys.stdin)
    raw = open(path, 'rb').read()
    crlf = b'\r\n' in raw
    for old, new in edits:
        o = old.encode('utf-8'); n = new.encode('utf-8')
        if crlf:
            o = o.replace(b'\n', b'\r\n'); n = n.replace(b'\n', b'\r\n')
        c = raw.count(o)
        if c != 1:
            sys.exit(f"{path}: expected exactly one occurrence, found {c}: {old[:60]!r}")
        raw = raw.replace(o, n, 1)
    open(path, 'wb').write(raw)

if __name__ == '__main__':
    main()
