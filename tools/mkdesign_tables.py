#!/venv/bin/python
"""Regenerates the three generated tables of DESIGN.md (repairs, known findings, seeded changes) from
known_findings.json and seeded/*/meta.json.  The tables sit between <!-- X-BEGIN --> / <!-- X-END --> markers."""
import json, os, re
HERE = os.path.dirname(os.path.dirname(os.path.abspath(__file__)))
k = json.load(open(os.path.join(HERE, "known_findings.json")))
fixed = ["| first seen by | commit | what failed |", "|---|---|---|"]
for line in k["fixed"]:
    m = re.match(r"fixed: property=(C\d+) (\w+) (.*)", line)
    fixed.append("| %s | `%s` | %s |" % (m.group(1), m.group(2), m.group(3).replace("|", "/")))
known = ["| property | key | what fails | witness |", "|---|---|---|---|"]
for e in k["known"]:
    known.append("| %s | `%s` | %s | `%s` |" % (e["property"], e["key"], e["what"].replace("|", "/"), e["witness"]))
seeded = ["| seeded change | what it needs in order to manifest | caught by |", "|---|---|---|"]
sd = os.path.join(HERE, "seeded")
n = missed_first = 0
for d in sorted(os.listdir(sd)):
    mp = os.path.join(sd, d, "meta.json")
    if not os.path.exists(mp):
        continue
    m = json.load(open(mp))
    n += 1
    cb = "; ".join(m["caught_by"])
    if "first missed" in cb:
        missed_first += 1
    seeded.append("| `%s` | %s | %s |" % (d, m["needs_to_manifest"].replace("|", "/"), cb.replace("|", "/")))
s = open(os.path.join(HERE, "DESIGN.md")).read()
for tag, rows in (("FIXED", fixed), ("KNOWN", known), ("SEEDED", seeded)):
    a, b = "<!-- %s-BEGIN -->" % tag, "<!-- %s-END -->" % tag
    i, j = s.index(a) + len(a), s.index(b)
    s = s[:i] + "\n" + "\n".join(rows) + "\n" + s[j:]
s = re.sub(r"### 8\.1 Repaired \(\d+ `fix:` commits", "### 8.1 Repaired (%d `fix:` commits" % len(k["fixed"]), s)
open(os.path.join(HERE, "DESIGN.md"), "w").write(s)
print("fixed=%d known=%d seeded=%d (first missed: %d)" % (len(k["fixed"]), len(k["known"]), n, missed_first))
