#!/bin/bash
# fix_matrix.sh — for every repaired defect recorded in known_findings.json ("fixed: property=<id> <commit> ..."), undo that
# commit on a scratch copy of /repo (when it still reverts cleanly: later repairs may touch the same lines) and run the quick
# tier of the property's check there: a fixed entry suppresses nothing, so the violation must be reported again.
cd "$(dirname "$0")/.."
/venv/bin/python - <<'PY' > /tmp/fix_matrix_list.$$
import json, re
for line in json.load(open("known_findings.json"))["fixed"]:
    m = re.match(r"fixed: property=(C\d+) ([0-9a-f]{7,}) (.*)", line)
    print(m.group(1), m.group(2), m.group(3)[:70].replace("\n", " "))
PY
while read -r P C WHAT; do
  D=$(mktemp -d /tmp/fixm_XXXXXX)
  git -C /repo archive HEAD | tar -x -C "$D"
  if ! git -C /repo show "$C" | (cd "$D" && patch -R -p1 -s --binary >/dev/null 2>&1); then
    echo "$P $C does-not-revert-cleanly ($WHAT)"; rm -rf "$D"; continue
  fi
  T=$(cd "$D" && env -u NSL_VERIF PYTHONPATH="$D" /venv/bin/python -m pytest -q -p no:cacheprovider 2>&1 | tail -1 | cut -c1-40)
  OUT=$(NSL_VERIF_EVIDENCE_DIR="$D/_evidence" NSL_VERIF_REPO="$D" /venv/bin/python run.py "$P" --tier quick 2>&1); RC=$?
  KEY=$(echo "$OUT" | grep -E "key=" | head -1 | sed 's/count=.*//' | cut -c1-90)
  if [ $RC -eq 1 ]; then echo "$P $C reported-again [$KEY] (tests with the defect back: $T)"; else echo "$P $C NOT-REPORTED rc=$RC ($WHAT)"; fi
  rm -rf "$D"
done < /tmp/fix_matrix_list.$$
rm -f /tmp/fix_matrix_list.$$
