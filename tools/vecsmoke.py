import sys, random; sys.path.insert(0,'/verif')
from nslverif.gen import vec, core
from nslverif.lang import print_module
from nslverif import diff
from nslverif.mon import vmobs
import collections
obs=vmobs.Observer()
stat=collections.Counter()
ex={}
N=int(sys.argv[1]) if len(sys.argv)>1 else 300
for s in range(N):
    rng=random.Random(s)
    g=vec.VecGen(rng)
    m=g.gen_module()
    src=print_module(m)
    c=diff.Compiled(src)
    f=m.funcs[-1]
    if not c.out.accepted:
        k='rej:'+c.out.reject['name']+':'+c.out.reject['cls']+':'+c.out.reject['msg'][:50]
        stat[k]+=1; ex.setdefault(k,(src,c.out.reject)); continue
    if not c.runnable:
        e=c.out.post_exc or c.link_exc
        k='post:'+e['cls']+':'+str(e.get('where'))+':'+e['msg'][:60]
        stat[k]+=1; ex.setdefault(k,(src,e)); continue
    for args,gl in core.gen_inputs(rng,m,f,2):
        ref=diff.run_ref(m,f.name,args,gl)
        if ref.status!='ok': stat['ref:'+ref.status+':'+str(ref.why)]+=1; continue
        vm=diff.run_vm(c,f.name,args,gl,obs,diff.vm_budget(ref.steps))
        bad=diff.compare(ref,vm,[n for _,n in m.globals])
        if bad is None: stat['ok']+=1
        else:
            k='bad:'+(vm.exc['cls']+':'+str(vm.sig) if vm.status=='exception' else vm.status)
            stat[k]+=1; ex.setdefault(k,(src,args,gl,bad))
for k,v in stat.most_common(): print(v,k)
show=sys.argv[2] if len(sys.argv)>2 else None
for k,v in ex.items():
    if show and show in k:
        print('=====',k); 
        for x in v: print(x)
