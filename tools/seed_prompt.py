#!/venv/bin/python
"""seed_prompt.py <property id> <worktree> <first change number> — prints the task text given to a fresh sub-agent
that seeds realistic property-breaking changes.  It contains only the property's text, the worktree path and (for a
second round) one-line descriptions of ideas already used, so that new ideas are different; nothing about /verif."""
import json
import os
import sys

HERE = os.path.dirname(os.path.dirname(os.path.abspath(__file__)))
pid, wt, first = sys.argv[1], sys.argv[2], int(sys.argv[3])
prop = [json.loads(l) for l in open(os.path.join(HERE, "properties.jsonl")) if json.loads(l)["id"] == pid][0]
used = []
sd = os.path.join(HERE, "seeded")
for d in sorted(os.listdir(sd)) if os.path.isdir(sd) else []:
    mp = os.path.join(sd, d, "meta.json")
    if os.path.exists(mp):
        m = json.load(open(mp))
        if m["property"] == pid:
            used.append(m["needs_to_manifest"])
a, b = first, first + 1
used_txt = ""
if used:
    used_txt = ("\nIdeas that have ALREADY been used by others for this property — do NOT repeat them or close variants; look in other files, "
                "other mechanisms, other kinds of triggering condition:\n" + "\n".join("  - " + u for u in used) + "\n")
print(f"""You are helping to evaluate a verification harness by *seeding realistic bugs*. You get a git worktree of a small Python project (NSL: a toy shading-language compiler — PLY parser, AST type/validation passes, lowering to a linear IR, IR optimisation passes, a Python VM, a WebAssembly emitter; CLI tools nslc.py / nslr.py) at {wt}. Work ONLY inside {wt} (you may create scratch files under {wt}/_scratch or /tmp/{pid}_work). Do NOT read or touch /verif or /repo, and do not look for any verification tooling: your change must be independent of it.

The property to break:

{prop['id']} — {prop['title']}

Statement: {prop['statement']}

Quantified over: {prop['quantifier']['text']}
{used_txt}
Your task: produce TWO different, independent source changes to the project (each as its own patch against the worktree's HEAD) such that, for each change on its own:
  1. the project still imports/compiles and the existing test suite still passes completely: run it with
       cd {wt} && PYTHONPATH={wt} env -u NSL_VERIF /venv/bin/python -m pytest -q -p no:cacheprovider
     (PYTHONPATH matters: without it `import nsl` resolves to another checkout. Check with `PYTHONPATH={wt} /venv/bin/python -c "import nsl; print(nsl.__file__)"`.) All 82 tests must pass.
  2. the property above is violated: there is a concrete demonstration — a small standalone Python script (using the project's public API: nsl.Compiler.Compiler().Compile(source, {{"optimize": bool, "wasm": bool}}), nsl.LinearIR.Linker / MemoryModuleLoader / FilesystemModuleLoader, nsl.VM.VirtualMachine(program).SetGlobal/Invoke/GetGlobal, nslc.py, etc.; read the tests/ directory and the sources to learn the API) that exits 0 on the unmodified worktree and exits non-zero (assertion failure) with your change applied. Run it both ways to confirm (use PYTHONPATH={wt}).
  3. the change is REALISTIC and SUBTLE: the kind of mistake a maintainer could make in a refactoring or a "small optimisation" (an off-by-one, a wrong operand, a dropped copy, a condition that is slightly too weak/strong, state that leaks between calls, a cache keyed too coarsely, an ordering dependence...). It must need something specific to manifest — a particular interleaving of operations, a multi-step sequence, an unusual but legal input, a particular combination of features, or two cooperating sites that each look fine alone — NOT something ordinary use would expose at once, and not something that breaks every program. Do not add dead code, comments announcing the bug, environment-variable triggers, random behaviour or time bombs.
  4. keep each patch small (typically 1-15 changed lines) and touch only files under nsl/ or the CLI scripts, not tests/.

Notes: source files use CRLF line endings and some start with a UTF-8 BOM — preserve them (edit with a script that reads/writes bytes, or make sure `git diff` shows only your intended lines). PLY regenerates nsl/parsetab.py / parser.out when the grammar changes; they are git-ignored, never include them in patches. After producing each patch, `git -C {wt} checkout -- . && git -C {wt} clean -fdq -e _scratch` to get back to HEAD before starting the next one.

Deliverables, written to {wt}/_scratch/ :
  change{a}.diff, demo{a}.py, change{b}.diff, demo{b}.py   (diffs produced by `git -C {wt} diff` so that `git apply` works)
  notes.md: for each change 5-10 lines: what was changed, why it breaks the property, what exactly is needed for it to manifest, and the commands you ran with their observed outcomes (tests pass; demo passes without / fails with the change).
In your final reply, summarise the two changes in a few sentences each and confirm the verification runs (tests with each change, each demo with/without). If you cannot find a second good change, deliver one and say so.""")
