#!/venv/bin/python
"""shrink05.py <replay.json>... — line-based delta debugging of a C05 violation: delete lines while the same
mechanism key reproduces.  Prints the reduced source."""
import sys, os, json, random
sys.path.insert(0, os.path.dirname(os.path.dirname(os.path.abspath(__file__))))
from nslverif import bootstrap
bootstrap.setup_paths()
from nslverif import driver
from nslverif.checks import c05
from nslverif.mon import vmobs

def keys_of(src):
    R = driver.Result()
    obs = vmobs.Observer()
    try:
        c05.check_candidate(R, obs, random.Random(1), src, "shrink")
    except Exception as e:
        return set()
    return set(R.violations)

for path in sys.argv[1:]:
    case = json.load(open(path))
    key = case["key"]
    src = case["sources"]["main"]
    lines = src.split("\n")
    changed = True
    while changed:
        changed = False
        i = 0
        while i < len(lines):
            cand = lines[:i] + lines[i + 1:]
            if key in keys_of("\n".join(cand)):
                lines = cand
                changed = True
            else:
                i += 1
    print("=====", key)
    print(case["what"][:200])
    print("\n".join(lines))
