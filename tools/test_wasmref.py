#!/venv/bin/python
"""Self-test of the WebAssembly 1.0 reference (nslverif/ref/wasm_{decode,validate,interp}.py).

  1. hand-assembled valid / invalid modules: expected verdict + rule, expected results, and V8
  2. random valid-by-construction i32/f32 functions: interpreter vs V8
  3. byte-mutated modules: validate_bytes verdict vs WebAssembly.validate
Run: /venv/bin/python /verif/tools/test_wasmref.py [--seed N] [--keep]
Exit status is non-zero on any disagreement.  node is optional (V8 comparisons are skipped without it).
"""
import json
import math
import os
import random
import shutil
import struct
import subprocess
import sys
import tempfile
import time

sys.path.insert(0, os.path.join(os.path.dirname(os.path.abspath(__file__)), ".."))
from nslverif.ref.wasm_decode import decode, DecodeError            # noqa: E402
from nslverif.ref.wasm_validate import validate, validate_bytes, ValidationError   # noqa: E402
from nslverif.ref.wasm_interp import Instance, Trap, StepLimit, Unsupported, LinkError  # noqa: E402

# ---------------------------------------------------------------------------------------------
# tiny assembler
I32, I64, F32, F64 = 0x7F, 0x7E, 0x7D, 0x7C
TNAME = {I32: "i32", I64: "i64", F32: "f32", F64: "f64"}
VOID = 0x40


def u(n):
    out = bytearray()
    while True:
        b = n & 0x7F
        n >>= 7
        if n:
            out.append(b | 0x80)
        else:
            out.append(b)
            return bytes(out)


def s(n):
    out = bytearray()
    while True:
        b = n & 0x7F
        n >>= 7
        if (n == 0 and not b & 0x40) or (n == -1 and b & 0x40):
            out.append(b)
            return bytes(out)
        out.append(b | 0x80)


def vec(items):
    return u(len(items)) + b"".join(items)


def name(text):
    raw = text if isinstance(text, bytes) else text.encode()
    return u(len(raw)) + raw


def section(sid, payload):
    return bytes([sid]) + u(len(payload)) + payload


def functype(params, results):
    return b"\x60" + vec([bytes([t]) for t in params]) + vec([bytes([t]) for t in results])


def limits(mn, mx=None):
    return (b"\x00" + u(mn)) if mx is None else (b"\x01" + u(mn) + u(mx))


def body(local_groups, code, end=True):
    raw = vec([u(n) + bytes([t]) for (n, t) in local_groups]) + code + (b"\x0b" if end else b"")
    return u(len(raw)) + raw


HEADER = b"\0asm\x01\0\0\0"
KIND = {"func": 0, "table": 1, "mem": 2, "global": 3}


def sections_of(types=(), imports=(), funcs=(), tables=(), mems=(), globals_=(), exports=(),
                start=None, elems=(), codes=(), datas=()):
    """-> ordered dict id -> payload.  types: [(params, results)]; imports: [(mod, name, descbytes)];
    funcs: [typeidx]; tables/mems: [limits bytes]; globals_: [(valtype, mut, initcode)];
    exports: [(name, kind, idx)]; elems: [(offsetcode, [funcidx])]; codes: [(localgroups, code)];
    datas: [(offsetcode, bytes)]"""
    secs = {}
    if types:
        secs[1] = vec([functype(p, r) for p, r in types])
    if imports:
        secs[2] = vec([name(m) + name(n) + d for m, n, d in imports])
    if funcs:
        secs[3] = vec([u(t) for t in funcs])
    if tables:
        secs[4] = vec([b"\x70" + t for t in tables])
    if mems:
        secs[5] = vec(list(mems))
    if globals_:
        secs[6] = vec([bytes([t, m]) + init + b"\x0b" for t, m, init in globals_])
    if exports:
        secs[7] = vec([name(n) + bytes([KIND[k]]) + u(i) for n, k, i in exports])
    if start is not None:
        secs[8] = u(start)
    if elems:
        secs[9] = vec([u(0) + off + b"\x0b" + vec([u(f) for f in fs]) for off, fs in elems])
    if codes:
        secs[10] = vec([body(lg, c) for lg, c in codes])
    if datas:
        secs[11] = vec([u(0) + off + b"\x0b" + vec([bytes([x]) for x in d]) for off, d in datas])
    return secs


def assemble(secs):
    """secs: dict id->payload, or list of (id, payload) / raw bytes for full control."""
    if isinstance(secs, dict):
        secs = sorted(secs.items())
    return HEADER + b"".join(x if isinstance(x, bytes) else section(*x) for x in secs)


def module(**kw):
    return assemble(sections_of(**kw))


# opcode names (independent of the modules under test)
O = {"unreachable": 0x00, "nop": 0x01, "block": 0x02, "loop": 0x03, "if": 0x04, "else": 0x05,
     "end": 0x0B, "br": 0x0C, "br_if": 0x0D, "br_table": 0x0E, "return": 0x0F, "call": 0x10,
     "call_indirect": 0x11, "drop": 0x1A, "select": 0x1B, "local.get": 0x20, "local.set": 0x21,
     "local.tee": 0x22, "global.get": 0x23, "global.set": 0x24, "memory.size": 0x3F,
     "memory.grow": 0x40}
for _i, _n in enumerate("i32.load i64.load f32.load f64.load i32.load8_s i32.load8_u i32.load16_s "
                        "i32.load16_u i64.load8_s i64.load8_u i64.load16_s i64.load16_u i64.load32_s "
                        "i64.load32_u i32.store i64.store f32.store f64.store i32.store8 i32.store16 "
                        "i64.store8 i64.store16 i64.store32".split()):
    O[_n] = 0x28 + _i
_ICMP = "eq ne lt_s lt_u gt_s gt_u le_s le_u ge_s ge_u".split()
_FCMP = "eq ne lt gt le ge".split()
_IUN = "clz ctz popcnt".split()
_IBIN = "add sub mul div_s div_u rem_s rem_u and or xor shl shr_s shr_u rotl rotr".split()
_FUN = "abs neg ceil floor trunc nearest sqrt".split()
_FBIN = "add sub mul div min max copysign".split()
for _t, _eqz, _un, _bin in (("i32", 0x45, 0x67, 0x6A), ("i64", 0x50, 0x79, 0x7C)):
    O[_t + ".eqz"] = _eqz
    for _i, _n in enumerate(_ICMP):
        O["%s.%s" % (_t, _n)] = _eqz + 1 + _i
    for _i, _n in enumerate(_IUN):
        O["%s.%s" % (_t, _n)] = _un + _i
    for _i, _n in enumerate(_IBIN):
        O["%s.%s" % (_t, _n)] = _bin + _i
for _t, _cmp, _un, _bin in (("f32", 0x5B, 0x8B, 0x92), ("f64", 0x61, 0x99, 0xA0)):
    for _i, _n in enumerate(_FCMP):
        O["%s.%s" % (_t, _n)] = _cmp + _i
    for _i, _n in enumerate(_FUN):
        O["%s.%s" % (_t, _n)] = _un + _i
    for _i, _n in enumerate(_FBIN):
        O["%s.%s" % (_t, _n)] = _bin + _i
for _i, _n in enumerate("i32.wrap_i64 i32.trunc_f32_s i32.trunc_f32_u i32.trunc_f64_s i32.trunc_f64_u "
                        "i64.extend_i32_s i64.extend_i32_u i64.trunc_f32_s i64.trunc_f32_u "
                        "i64.trunc_f64_s i64.trunc_f64_u f32.convert_i32_s f32.convert_i32_u "
                        "f32.convert_i64_s f32.convert_i64_u f32.demote_f64 f64.convert_i32_s "
                        "f64.convert_i32_u f64.convert_i64_s f64.convert_i64_u f64.promote_f32 "
                        "i32.reinterpret_f32 i64.reinterpret_f64 f32.reinterpret_i32 "
                        "f64.reinterpret_i64".split()):
    O[_n] = 0xA7 + _i
assert O["f64.reinterpret_i64"] == 0xBF and O["i64.rotr"] == 0x8A and O["f64.copysign"] == 0xA6


def i32c(n):
    return b"\x41" + s(n)


def i64c(n):
    return b"\x42" + s(n)


def f32c(x):
    return b"\x43" + (struct.pack("<I", x) if isinstance(x, int) else struct.pack("<f", x))


def f64c(x):
    return b"\x44" + (struct.pack("<Q", x) if isinstance(x, int) else struct.pack("<d", x))


def lget(i):
    return b"\x20" + u(i)


def lset(i):
    return b"\x21" + u(i)


def ltee(i):
    return b"\x22" + u(i)


def op(*names):
    """op('i32.add', 'drop', ...) plain opcodes; ints/bytes pass through."""
    out = bytearray()
    for n in names:
        if isinstance(n, bytes):
            out += n
        elif isinstance(n, int):
            out.append(n)
        else:
            out.append(O[n])
    return bytes(out)


def memarg(align, offset):
    return u(align) + u(offset)


# ---------------------------------------------------------------------------------------------
# node / V8 harness: one process judges every file and runs the requested calls
NODE_JS = r"""
const fs = require('fs'), path = require('path');
const dir = process.argv[2];
const man = JSON.parse(fs.readFileSync(path.join(dir, 'manifest.json')));
const dv = new DataView(new ArrayBuffer(8));
function dec(a) { const [t, v] = a;
  if (t === 'i32') return Number(v) | 0;
  if (t === 'i64') return BigInt(v);
  dv.setBigUint64(0, BigInt('0x' + v)); return dv.getFloat64(0); }
function enc(r) { if (r === undefined) return null;
  if (typeof r === 'bigint') return ['b', r.toString()];
  dv.setFloat64(0, r); return ['d', dv.getBigUint64(0).toString(16)]; }
const out = [];
for (const e of man) {
  const buf = fs.readFileSync(path.join(dir, e.file));
  const rec = {valid: WebAssembly.validate(buf)};
  if (!rec.valid) { try { new WebAssembly.Module(buf); } catch (err) { rec.error = String(err.message); } }
  else if (e.calls) {
    try {
      const inst = new WebAssembly.Instance(new WebAssembly.Module(buf), {});
      rec.results = [];
      for (const c of e.calls) {
        try { rec.results.push({v: enc(inst.exports[c[0]](...c[1].map(dec)))}); }
        catch (err) { rec.results.push({trap: String(err.message),
            kind: err instanceof WebAssembly.RuntimeError ? 'trap' : err instanceof RangeError ? 'range' : 'other'}); }
      }
    } catch (err) { rec.insterr = String(err.message); }
  }
  out.push(rec);
}
fs.writeFileSync(path.join(dir, 'out.json'), JSON.stringify(out));
"""


def find_node():
    for cand in ("node", "nodejs", "/usr/bin/nodejs", "/usr/bin/node"):
        p = shutil.which(cand)
        if p:
            return p
    return None


def enc_arg(t, v):
    if t in ("i32", "i64"):
        return [t, str(v)]
    if t == "f32":
        v = struct.unpack("<f", struct.pack("<f", v))[0] if not (math.isinf(v) or v != v) else v
    return [t, "%016x" % struct.unpack("<Q", struct.pack("<d", v))[0]]


def run_node(node, jobs, keep=False):
    """jobs: [(bytes, calls|None)], calls = [(export, [(type, value)])] -> list of node records."""
    d = tempfile.mkdtemp(prefix="wasmref_", dir="/tmp")
    try:
        man = []
        for i, (data, calls) in enumerate(jobs):
            fn = "m%05d.wasm" % i
            with open(os.path.join(d, fn), "wb") as f:
                f.write(data)
            man.append({"file": fn, "calls": None if calls is None else
                        [[e, [enc_arg(t, v) for t, v in args]] for e, args in calls]})
        with open(os.path.join(d, "manifest.json"), "w") as f:
            json.dump(man, f)
        with open(os.path.join(d, "run.js"), "w") as f:
            f.write(NODE_JS)
        p = subprocess.run([node, os.path.join(d, "run.js"), d], capture_output=True, text=True,
                           timeout=1200)
        if p.returncode != 0:
            raise RuntimeError("node failed: " + p.stderr[-2000:])
        with open(os.path.join(d, "out.json")) as f:
            return json.load(f)
    finally:
        if keep:
            print("kept", d)
        else:
            shutil.rmtree(d, ignore_errors=True)


def node_value(rec):
    """node result record -> ('trap', msg) | ('ok', None | int | float)"""
    if "trap" in rec:
        return ("trap", rec["kind"] + ":" + rec["trap"])
    v = rec["v"]
    if v is None:
        return ("ok", None)
    if v[0] == "b":
        return ("ok", int(v[1]))
    return ("ok", struct.unpack("<d", struct.pack("<Q", int(v[1], 16)))[0])


def same_value(t, mine, theirs):
    """mine: python result of type t; theirs: JS number (float) or int (BigInt)."""
    if t == "i64":
        return isinstance(theirs, int) and mine == theirs
    if t == "i32":
        return theirs == mine and float(theirs).is_integer()
    if mine != mine:
        return theirs != theirs
    return mine == theirs and math.copysign(1, mine) == math.copysign(1, theirs)


def run_mine(data, calls, max_steps=2_000_000):
    """-> (verdict tuple from validate_bytes, [('ok', [values]) | ('trap', reason)] | None)"""
    verdict = validate_bytes(data)
    if not verdict[0] or calls is None:
        return verdict, None
    m = decode(data)
    try:
        inst = Instance(m, max_steps=max_steps)
    except (Unsupported, LinkError, Trap) as e:
        return verdict, [("insterr", repr(e))]
    res = []
    for export, args in calls:
        try:
            res.append(("ok", inst.invoke(export, [v for _t, v in args])))
        except Trap as e:
            res.append(("trap", e.reason))
    return verdict, res


def result_types(data, export):
    m = decode(data)
    idx = [i for (n, k, i) in m.exports if n == export and k == "func"][0]
    return m.types[m.funcs[idx - len(m.imported("func"))]][1]


# ---------------------------------------------------------------------------------------------
# part 1: hand-assembled modules
CASES = []


def case(name_, data, expect="ok", calls=None, v8=None, insterr=False):
    """expect: 'ok' or (stage, rule).  calls: [(export, [(type, value)], expected)] with expected a
    list of results, 'trap', or None (only compared with V8).  v8: 'accepts' when V8 is known to be
    laxer than 1.0 for this module (post-MVP feature), with the reason in the case name."""
    CASES.append(dict(name=name_, data=data, expect=expect, calls=calls, v8=v8, expect_insterr=insterr))


def A(t, v):
    return (t, v)


def valid_cases():
    ii_i, ff_f, i_i, v_v = ([I32, I32], [I32]), ([F32, F32], [F32]), ([I32], [I32]), ([], [])
    case("empty module", HEADER)
    case("i32 add", module(types=[ii_i], funcs=[0], exports=[("add", "func", 0)],
                           codes=[([], lget(0) + lget(1) + op("i32.add"))]),
         calls=[("add", [A("i32", 1), A("i32", 2)], [3]),
                ("add", [A("i32", 0x7FFFFFFF), A("i32", 1)], [-2 ** 31]),
                ("add", [A("i32", -1), A("i32", -1)], [-2])])
    case("f32 mul-add rounds each step", module(
        types=[ff_f], funcs=[0], exports=[("f", "func", 0)],
        codes=[([], lget(0) + lget(1) + op("f32.mul") + lget(0) + op("f32.add"))]),
        calls=[("f", [A("f32", 1.5), A("f32", 2.25)], [4.875]),
               ("f", [A("f32", 16777216.0), A("f32", 1.0000001192092896)], None),
               ("f", [A("f32", 3.4028234663852886e38), A("f32", 2.0)], [float("inf")]),
               ("f", [A("f32", 0.1), A("f32", 0.1)], None)])
    case("locals, tee, zero init", module(
        types=[i_i], funcs=[0], exports=[("f", "func", 0)],
        codes=[([(2, I32), (1, F32)], lget(0) + i32c(3) + op("i32.mul") + ltee(1) + lget(2) +
                op("i32.add") + lset(2) + lget(2) + lget(1) + op("i32.add") + lget(3) +
                op("i32.trunc_f32_s", "i32.add"))]),
        calls=[("f", [A("i32", 5)], [30])])
    case("calls between functions", module(
        types=[i_i, ii_i], funcs=[1, 0], exports=[("sumsq", "func", 0)],
        codes=[([], lget(0) + b"\x10\x01" + lget(1) + b"\x10\x01" + op("i32.add")),
               ([], lget(0) + lget(0) + op("i32.mul"))]),
        calls=[("sumsq", [A("i32", 3), A("i32", 4)], [25]),
               ("sumsq", [A("i32", 65536), A("i32", 1)], [1])])
    fac_loop = (i32c(1) + lset(1) + bytes([O["block"], VOID, O["loop"], VOID]) + lget(0) +
                op("i32.eqz") + b"\x0d\x01" + lget(1) + lget(0) + op("i32.mul") + lset(1) +
                lget(0) + i32c(1) + op("i32.sub") + lset(0) + b"\x0c\x00" + b"\x0b\x0b" + lget(1))
    case("factorial loop", module(types=[i_i], funcs=[0], exports=[("fac", "func", 0)],
                                  codes=[([(1, I32)], fac_loop)]),
         calls=[("fac", [A("i32", 5)], [120]), ("fac", [A("i32", 10)], [3628800]),
                ("fac", [A("i32", 13)], [1932053504]), ("fac", [A("i32", 0)], [1])])
    fac_rec = (lget(0) + op("i64.eqz") + bytes([O["if"], I64]) + i64c(1) + op("else") + lget(0) +
               lget(0) + i64c(1) + op("i64.sub") + b"\x10\x00" + op("i64.mul") + op("end"))
    case("factorial recursive i64", module(types=[([I64], [I64])], funcs=[0],
                                           exports=[("fac", "func", 0)], codes=[([], fac_rec)]),
         calls=[("fac", [A("i64", 20)], [2432902008176640000]), ("fac", [A("i64", 21)], None),
               ("fac", [A("i64", 25)], None)])
    case("if/else abs and max", module(
        types=[i_i, ii_i], funcs=[0, 1], exports=[("abs", "func", 0), ("max", "func", 1)],
        codes=[([], lget(0) + i32c(0) + op("i32.lt_s") + bytes([O["if"], I32]) + i32c(0) + lget(0) +
                op("i32.sub", "else") + lget(0) + op("end")),
               ([], lget(0) + lget(1) + op("i32.gt_s") + bytes([O["if"], VOID]) + lget(0) +
                op("return", "end") + lget(1))]),
        calls=[("abs", [A("i32", -7)], [7]), ("abs", [A("i32", -2 ** 31)], [-2 ** 31]),
               ("max", [A("i32", 3), A("i32", -4)], [3]), ("max", [A("i32", -3), A("i32", 4)], [4])])
    mem_code = [
        ([], lget(0) + lget(1) + b"\x36\x02\x00"),                         # store(addr, v)
        ([], lget(0) + b"\x28\x02\x00"),                                   # load
        ([], lget(0) + b"\x2c\x00\x00" + lget(0) + b"\x2d\x00\x01" + op("i32.add")),  # load8_s + load8_u off 1
        ([], lget(0) + b"\x2e\x01\x00" + lget(0) + b"\x2f\x00\x02" + op("i32.mul")),  # load16_s * load16_u
        ([], op("memory.size", 0)),
        ([], lget(0) + op("memory.grow", 0)),
        ([], lget(0) + lget(0) + b"\x29\x03\x00" + b"\x37\x00\x08" + lget(0) + b"\x34\x02\x08" +
         op("i32.wrap_i64")),                                              # i64 copy, load32_s
        ([], lget(0) + f32c(1.1) + b"\x38\x02\x00" + lget(0) + b"\x2a\x02\x00" + op("f64.promote_f32") +
         lget(0) + f64c(2.2) + b"\x39\x03\x10" + lget(0) + b"\x2b\x03\x10" + op("f64.add")),
        ([], lget(0) + i64c(-2) + b"\x3c\x00\x00" + lget(0) + i64c(-3) + b"\x3d\x01\x02" + lget(0) +
         i64c(-4) + b"\x3e\x02\x04" + lget(0) + i32c(0x1ABCD) + b"\x3a\x00\x08" + lget(0) +
         i32c(0x1ABCD) + b"\x3b\x01\x0a" + lget(0) + b"\x29\x00\x00" + lget(0) + b"\x35\x00\x08" +
         op("i64.xor") + lget(0) + b"\x30\x00\x00" + op("i64.add") + lget(0) + b"\x31\x00\x00" +
         op("i64.add") + lget(0) + b"\x32\x00\x02" + op("i64.add") + lget(0) + b"\x33\x00\x02" +
         op("i64.add")),
    ]
    mt = [([I32, I32], []), i_i, i_i, i_i, ([], [I32]), i_i, i_i, ([I32], [F64]), ([I32], [I64])]
    case("memory", module(
        types=mt, funcs=list(range(9)), mems=[limits(1, 3)],
        exports=[(n, "func", i) for i, n in enumerate("store load b h size grow copy fl wide".split())],
        codes=mem_code, datas=[(i32c(16), b"\x80\xff\x7f\x01\xfe\xff"), (i32c(65532), b"abcd")]),
        calls=[("load", [A("i32", 16)], [0x017FFF80]), ("b", [A("i32", 16)], [-128 + 255]),
               ("h", [A("i32", 16)], [-128 * 0x017F]), ("load", [A("i32", 65532)], [0x64636261]),
               ("load", [A("i32", 65533)], "trap"), ("load", [A("i32", -1)], "trap"),
               ("store", [A("i32", 100), A("i32", -5)], []), ("load", [A("i32", 100)], [-5]),
               ("load", [A("i32", 98)], [-327680]),
               ("store", [A("i32", 65533), A("i32", 1)], "trap"), ("size", [], [1]),
               ("grow", [A("i32", 1)], [1]), ("size", [], [2]), ("load", [A("i32", 65533)], None),
               ("grow", [A("i32", 2)], [-1]), ("grow", [A("i32", 1)], [2]), ("grow", [A("i32", 1)], [-1]),
               ("grow", [A("i32", 0)], [3]), ("copy", [A("i32", 16)], [0x017FFF80]),
               ("fl", [A("i32", 200)], None), ("wide", [A("i32", 300)], None)])
    case("globals and start", module(
        types=[v_v, ([], [I32]), ([], [F32])], funcs=[0, 1, 2],
        globals_=[(I32, 1, i32c(40)), (F32, 0, f32c(2.5)), (I64, 1, i64c(-1)), (F64, 0, f64c(1e300))],
        exports=[("bump", "func", 1), ("g1", "func", 2), ("counter", "global", 0)], start=0,
        codes=[([], op("global.get", 0) + i32c(2) + op("i32.add") + op("global.set", 0)),
               ([], op("global.get", 0) + i32c(1) + op("i32.add") + op("global.set", 0, "global.get", 0)),
               ([], op("global.get", 1))]),
        calls=[("bump", [], [43]), ("bump", [], [44]), ("g1", [], [2.5])])
    case("select, drop, nop", module(
        types=[([I32, F32, F32], [F32]), ([I32, I32, I32], [I32])], funcs=[0, 1],
        exports=[("fsel", "func", 0), ("isel", "func", 1)],
        codes=[([], lget(1) + lget(2) + lget(0) + op("nop", "select")),
               ([], lget(0) + lget(1) + lget(2) + op("select") + i32c(9) + op("drop"))]),
        calls=[("fsel", [A("i32", 1), A("f32", 1.5), A("f32", -0.0)], [1.5]),
               ("fsel", [A("i32", 0), A("f32", 1.5), A("f32", -0.0)], [-0.0]),
               ("isel", [A("i32", 7), A("i32", 8), A("i32", 256)], [7]),
               ("isel", [A("i32", 7), A("i32", 8), A("i32", 0)], [8])])
    conv = [("i32.trunc_f32_s", F32, I32), ("i32.trunc_f32_u", F32, I32), ("i32.trunc_f64_s", F64, I32),
            ("i32.trunc_f64_u", F64, I32), ("i64.trunc_f32_s", F32, I64), ("i64.trunc_f32_u", F32, I64),
            ("i64.trunc_f64_s", F64, I64), ("i64.trunc_f64_u", F64, I64), ("f32.convert_i32_s", I32, F32),
            ("f32.convert_i32_u", I32, F32), ("f32.convert_i64_s", I64, F32), ("f32.convert_i64_u", I64, F32),
            ("f64.convert_i32_s", I32, F64), ("f64.convert_i32_u", I32, F64), ("f64.convert_i64_s", I64, F64),
            ("f64.convert_i64_u", I64, F64), ("i32.wrap_i64", I64, I32), ("i64.extend_i32_s", I32, I64),
            ("i64.extend_i32_u", I32, I64), ("f32.demote_f64", F64, F32), ("f64.promote_f32", F32, F64),
            ("i32.reinterpret_f32", F32, I32), ("i64.reinterpret_f64", F64, I64),
            ("f32.reinterpret_i32", I32, F32), ("f64.reinterpret_i64", I64, F64)]
    samples = {I32: [0, 1, -1, 2 ** 31 - 1, -2 ** 31, 16777217, -16777217, 0x7FFFFF40, 0x3F800000],
               I64: [0, -1, 2 ** 63 - 1, -2 ** 63, 0x8000008000000001 - 2 ** 64, 0x7FFFFFBFFFFFFFFF,
                     0x7FFFFF4000000001, 9007199254740993, -9007199254740993, 0x0020000020000001,
                     0x4000000000000000 + 0x4000000001, 0x3FF0000000000000],
               F32: [0.0, -0.0, 0.5, -0.9, 1.5, -1.5, 2147483520.0, 2147483648.0, -2147483648.0,
                     -2147483904.0, 4294967040.0, 4294967296.0, -1.0, 9.223371487098962e18,
                     9.223372036854776e18, -9.223372036854776e18, 1.8446742974197924e19,
                     1.8446744073709552e19, float("inf"), float("-inf"), float("nan"), 1e-45],
               F64: [0.0, -0.0, 0.5, -0.9999999, 2147483647.9, 2147483648.0, -2147483648.9, -2147483649.0,
                     4294967295.9, 4294967296.0, -1.0, 9.223372036854775e18, 9.223372036854776e18,
                     -9.223372036854776e18, -9.223372036854778e18, 1.844674407370955e19,
                     1.8446744073709552e19, float("inf"), float("nan"), 1e300, -1e300, 1e-320,
                     3.4028235677973366e38, 3.4028235677973362e38, 1.0000000596046448, 1.0000000596046447,
                     1.401298464324817e-45, 7.006492321624085e-46, 7.006492321624087e-46]}
    case("conversions", module(
        types=[([a], [r]) for _n, a, r in conv], funcs=list(range(len(conv))),
        exports=[(n, "func", i) for i, (n, _a, _r) in enumerate(conv)],
        codes=[([], lget(0) + op(n)) for n, _a, _r in conv]),
        calls=[(n, [A(TNAME[a], v)], None) for n, a, _r in conv for v in samples[a]
               if not (n.startswith(("i32.reinterpret", "i64.reinterpret")) and v != v)])
    sw = (bytes([O["block"], VOID, O["block"], VOID, O["block"], VOID]) + lget(0) +
          b"\x0e\x02\x00\x01\x02" + op("end") + i32c(10) + op("return", "end") + i32c(20) +
          op("return", "end") + i32c(30))
    case("br_table switch", module(types=[i_i], funcs=[0], exports=[("sw", "func", 0)], codes=[([], sw)]),
         calls=[("sw", [A("i32", v)], [r]) for v, r in ((0, 10), (1, 20), (2, 30), (3, 30), (-1, 30))])
    case("call_indirect", module(
        types=[i_i, ii_i, ([I64], [I32])], funcs=[0, 0, 2, 1], tables=[limits(6, 6)],
        exports=[("disp", "func", 3)], elems=[(i32c(1), [0, 1]), (i32c(4), [2])],
        codes=[([], lget(0) + i32c(1) + op("i32.add")), ([], lget(0) + i32c(2) + op("i32.mul")),
               ([], lget(0) + op("i32.wrap_i64")), ([], lget(1) + lget(0) + b"\x11\x00\x00")]),
        calls=[("disp", [A("i32", 1), A("i32", 20)], [21]), ("disp", [A("i32", 2), A("i32", 20)], [40]),
               ("disp", [A("i32", 0), A("i32", 1)], "trap"), ("disp", [A("i32", 4), A("i32", 1)], "trap"),
               ("disp", [A("i32", 6), A("i32", 1)], "trap"), ("disp", [A("i32", -1), A("i32", 1)], "trap")])
    ibin = [t + "." + n for t in ("i32", "i64") for n in _IBIN + _ICMP]
    iun = [t + "." + n for t in ("i32", "i64") for n in _IUN + ["eqz"]]
    ty = {"i32": I32, "i64": I64, "f32": F32, "f64": F64}

    def res_of(n):
        return I32 if n.split(".")[1] in _ICMP + _FCMP + ["eqz"] else ty[n[:3]]
    tys, exps, cds, calls = [], [], [], []
    vals = {"i32": [0, 1, -1, 2, 31, 32, 33, -2 ** 31, 2 ** 31 - 1, 7, -7, 0x12345678, 0xF0F0F0F0 - 2 ** 32],
            "i64": [0, 1, -1, 2, 63, 64, 65, -2 ** 63, 2 ** 63 - 1, 7, -7, 0x123456789ABCDEF0,
                    0xF0F0F0F0F0F0F0F0 - 2 ** 64, 2 ** 32, -2 ** 31],
            "f32": [0.0, -0.0, 1.0, -1.0, 0.5, -0.5, 1.5, 2.5, -2.5, 3.5, 0.1, 1e-45, 3.4028234663852886e38,
                    float("inf"), float("-inf"), float("nan"), 8388608.5, 8388607.5, -4.0, 16777216.0, 3.0],
            "f64": [0.0, -0.0, 1.0, -1.0, 0.5, -0.5, 1.5, 2.5, -2.5, 0.1, 5e-324, 1.7976931348623157e308,
                    float("inf"), float("-inf"), float("nan"), 4503599627370496.5, 4503599627370495.5,
                    -4.0, 9007199254740993.0, 3.0, 0.49999999999999994]}
    fbin = [t + "." + n for t in ("f32", "f64") for n in _FBIN + _FCMP]
    fun = [t + "." + n for t in ("f32", "f64") for n in _FUN]
    for n in ibin + iun + fbin + fun:
        t, binary = n[:3], n in ibin or n in fbin
        tys.append(([ty[t]] * (2 if binary else 1), [res_of(n)]))
        exps.append((n, "func", len(cds)))
        cds.append(([], lget(0) + (lget(1) if binary else b"") + op(n)))
        for a in vals[t]:
            if binary:
                for b in vals[t]:
                    if n.endswith("copysign") and b != b:
                        continue                  # sign of a NaN is not deterministic
                    calls.append((n, [A(t, a), A(t, b)], None))
            else:
                calls.append((n, [A(t, a)], None))
    case("all numeric operators", module(types=tys, funcs=list(range(len(cds))), exports=exps, codes=cds),
         calls=calls)
    case("div/rem traps (expected values)", module(
        types=[ii_i], funcs=[0, 0, 0], exports=[("div", "func", 0), ("rem", "func", 1), ("divu", "func", 2)],
        codes=[([], lget(0) + lget(1) + op(n)) for n in ("i32.div_s", "i32.rem_s", "i32.div_u")]),
        calls=[("div", [A("i32", 7), A("i32", 0)], "trap"), ("div", [A("i32", -2 ** 31), A("i32", -1)], "trap"),
               ("rem", [A("i32", -2 ** 31), A("i32", -1)], [0]), ("rem", [A("i32", -7), A("i32", 2)], [-1]),
               ("rem", [A("i32", 7), A("i32", -2)], [1]), ("div", [A("i32", -7), A("i32", 2)], [-3]),
               ("rem", [A("i32", 1), A("i32", 0)], "trap"), ("divu", [A("i32", -1), A("i32", 2)], [2 ** 31 - 1])])
    case("unreachable and polymorphic stack", module(
        types=[i_i], funcs=[0, 0, 0], exports=[("t", "func", 0), ("p", "func", 1), ("q", "func", 2)],
        codes=[([], op("unreachable")),
               ([], lget(0) + op("return", "i32.add", "drop", "f32.neg", "drop", "select", "i64.eqz")),
               ([], bytes([O["block"], I32]) + lget(0) + b"\x0c\x00" + op("i32.add", "end"))]),
        calls=[("t", [A("i32", 1)], "trap"), ("p", [A("i32", 5)], [5]), ("q", [A("i32", 6)], [6])])
    case("infinite recursion", module(types=[i_i], funcs=[0], exports=[("r", "func", 0)],
                                      codes=[([], lget(0) + i32c(1) + op("i32.add") + b"\x10\x00")]),
         calls=[("r", [A("i32", 0)], "trap")])
    nest = (bytes([O["block"], I32]) + bytes([O["block"], VOID]) + bytes([O["loop"], I32]) + lget(0) +
            i32c(1) + op("i32.add") + ltee(0) + lget(0) + i32c(5) + op("i32.ge_s") + b"\x0d\x02" +
            op("drop") + lget(0) + i32c(100) + op("i32.eq") + b"\x0d\x01" + b"\x0c\x00" + op("end") +
            op("drop", "end") + i32c(-1) + op("end") + i32c(1000) + op("i32.add"))
    case("nested blocks, br with value, loop result", module(
        types=[i_i], funcs=[0], exports=[("n", "func", 0)], codes=[([], nest)]),
        calls=[("n", [A("i32", 0)], [1005]), ("n", [A("i32", 7)], [1008]), ("n", [A("i32", 99)], [1100])])
    case("br to the function label", module(
        types=[i_i], funcs=[0], exports=[("f", "func", 0)],
        codes=[([], bytes([O["block"], VOID]) + lget(0) + lget(0) + b"\x0d\x01" + op("drop", "end") +
                i32c(77))]),
        calls=[("f", [A("i32", 5)], [5]), ("f", [A("i32", 0)], [77])])
    f64body = lget(0) + lget(1) + op("f64.div") + lget(0) + op("f64.sqrt", "f64.add")
    case("f64 arithmetic", module(types=[([F64, F64], [F64])], funcs=[0], exports=[("f", "func", 0)],
                                  codes=[([], f64body)]),
         calls=[("f", [A("f64", 1.0), A("f64", 3.0)], None), ("f", [A("f64", 1.0), A("f64", 0.0)], None),
                ("f", [A("f64", 0.0), A("f64", 0.0)], None), ("f", [A("f64", -1.0), A("f64", -0.0)], None)])
    secs = sections_of(types=[ii_i], funcs=[0], exports=[("add", "func", 0)],
                       codes=[([], lget(0) + lget(1) + op("i32.add"))])
    cust = section(0, name("note") + b"\x01\x02\xff")
    case("custom sections everywhere", assemble(
        [cust] + [x for sid in sorted(secs) for x in ((sid, secs[sid]), cust)] + [section(0, name(""))]),
        calls=[("add", [A("i32", 1), A("i32", 2)], [3])])
    case("padded LEBs are legal", HEADER + b"\x01\x87\x80\x80\x80\x00" + b"\x01\x60\x02\x7f\x7f\x01\x7f" +
         b"\x03\x84\x80\x00\x81\x00\x80\x00" + section(7, vec([name("add") + b"\x00\x80\x80\x80\x80\x00"])) +
         section(10, vec([b"\x91\x00" + b"\x80\x00" + b"\x20\x80\x00\x20\x81\x80\x80\x80\x00\x6a" +
                          b"\x41\xff\x7f\x6a" + b"\x0b"])),
         calls=[("add", [A("i32", 1), A("i32", 2)], [2])])
    case("imports shift the index spaces", module(
        types=[i_i, v_v], imports=[("e", "f", b"\x00\x00"), ("e", "g", b"\x03\x7f\x00"),
                                   ("e", "m", b"\x02" + limits(1)), ("e", "t", b"\x01\x70" + limits(1, 2)),
                                   ("e", "mg", b"\x03\x7e\x01")],
        funcs=[0], globals_=[(I32, 0, op("global.get", 0))],
        exports=[("f", "func", 1), ("imp", "func", 0), ("g", "global", 2), ("m", "mem", 0), ("t", "table", 0)],
        elems=[(op("global.get", 0), [0, 1])], datas=[(op("global.get", 0), b"hi")],
        codes=[([], lget(0) + b"\x10\x00" + op("global.get", 2, "i32.add") + i64c(1) + op("global.set", 1))]))
    one = dict(types=[v_v], funcs=[0], exports=[("f", "func", 0)], codes=[([], b"")])
    case("data segment out of bounds fails instantiation", module(
        **dict(one, mems=[limits(1)], datas=[(i32c(65535), b"ab")])), calls=[("f", [], [])], insterr=True)
    case("element segment out of bounds fails instantiation", module(
        **dict(one, tables=[limits(1)], elems=[(i32c(1), [0])])), calls=[("f", [], [])], insterr=True)
    case("trap in the start function fails instantiation", module(
        types=[v_v], funcs=[0, 0], exports=[("f", "func", 0)], start=1,
        codes=[([], b""), ([], op("unreachable"))]), calls=[("f", [], [])], insterr=True)
    case("segments exactly at the end fit", module(
        **dict(one, mems=[limits(1)], tables=[limits(1)], datas=[(i32c(65534), b"ab"), (i32c(65536), b"")],
               elems=[(i32c(0), [0]), (i32c(1), [])])), calls=[("f", [], [])])
    case("function and code sections both absent, others present",
         module(types=[v_v], mems=[limits(0)], globals_=[(F64, 0, f64c(0.0))]))
    case("locals of every type in groups", module(
        types=[([], [F64])], funcs=[0], exports=[("f", "func", 0)],
        codes=[([(2, I64), (0, I32), (3, F64), (1, F32)], lget(3) + lget(4) + op("f64.add") + lget(1) +
                op("f64.convert_i64_s", "f64.add") + lget(5) + op("f64.promote_f32", "f64.add"))]),
        calls=[("f", [], [0.0])])


valid_cases()


def invalid_cases():
    ii_i, i_i, v_v, v_i = ([I32, I32], [I32]), ([I32], [I32]), ([], []), ([], [I32])
    D, V = "decode", "validate"
    add = dict(types=[ii_i], funcs=[0], exports=[("add", "func", 0)],
               codes=[([], lget(0) + lget(1) + op("i32.add"))])
    S = sections_of(**add)

    def with_sec(sid, payload):
        d = dict(S)
        d[sid] = payload
        return assemble(d)

    def fn(code, types=None, locals_=(), **kw):
        """single function of type 0 (default [] -> [i32]) with the given code"""
        return module(types=types or [v_i], funcs=[0], codes=[(list(locals_), code)], **kw)

    good = assemble(S)
    # ---- decode rules
    case("bad magic", b"\0asn" + good[4:], (D, "bad-magic"))
    case("bad version 2", b"\0asm\x02\0\0\0" + good[8:], (D, "bad-version"))
    case("truncated preamble", b"\0asm\x01\0", (D, "unexpected-eof"))
    case("empty file", b"", (D, "unexpected-eof"))
    case("section order: function before type", assemble([(3, S[3]), (1, S[1]), (7, S[7]), (10, S[10])]),
         (D, "section-order"))
    case("duplicate type section", assemble([(1, S[1]), (1, S[1]), (3, S[3]), (7, S[7]), (10, S[10])]),
         (D, "duplicate-section"))
    case("section size too large", assemble([(1, S[1]), b"\x03\x03" + S[3], (7, S[7]), (10, S[10])]),
         (D, "section-size-mismatch"))
    case("section size too small", assemble([(1, S[1]), (3, S[3]), b"\x07\x06" + S[7], (10, S[10])]),
         (D, "section-size-mismatch"))
    case("section size beyond file", assemble([(1, S[1]), (3, S[3]), (7, S[7])]) + b"\x0a\x20" + S[10], (D, "unexpected-eof"))
    case("truncated file", good[:-3], (D, "unexpected-eof"))
    case("unknown section 13", good + section(13, b""), (D, "unknown-section"))
    case("datacount section 12 is post-1.0: V8 accepts (bulk memory)",
         assemble([(1, S[1]), (3, S[3]), (7, S[7]), (12, u(0)), (10, S[10])]), (D, "unknown-section"),
         v8="accepts")
    case("u32 LEB of 6 bytes", assemble([(1, S[1]), b"\x03\x87\x80\x80\x80\x80\x00" + b"\x01\x00"]),
         (D, "leb-too-long"))
    case("u32 LEB with bits above 2^32", with_sec(3, b"\x01\x80\x80\x80\x80\x10"), (D, "leb-unused-bits"))
    case("s32 LEB not sign-extended", fn(b"\x41\xff\xff\xff\xff\x4f"), (D, "leb-unused-bits"))
    case("s32 LEB too long", fn(b"\x41\x80\x80\x80\x80\x80\x00"), (D, "leb-too-long"))
    case("s64 LEB too long", fn(b"\x42" + b"\xff" * 10 + b"\x7f" + op("i32.wrap_i64")), (D, "leb-too-long"))
    case("s64 LEB unused bits", fn(b"\x42" + b"\x80" * 9 + b"\x02" + op("i32.wrap_i64")),
         (D, "leb-unused-bits"))
    case("value type 0x7b is post-1.0: V8 accepts (v128, SIMD)",
         assemble({1: vec([b"\x60" + vec([b"\x7b"]) + vec([])])}), (D, "bad-valtype"), v8="accepts")
    case("bad value type 0x50", with_sec(1, vec([b"\x60" + vec([b"\x50", b"\x7f"]) + vec([b"\x7f"])])),
         (D, "bad-valtype"))
    case("bad function type tag", with_sec(1, vec([b"\x61" + S[1][2:]])), (D, "bad-functype-tag"))
    case("two results are post-1.0: V8 accepts (multi-value)", module(
        types=[([], [I32, I32])], funcs=[0], codes=[([], i32c(1) + i32c(2))]), (D, "too-many-results"),
        v8="accepts")
    case("function section without code", assemble([(1, S[1]), (3, S[3])]), (D, "func-code-count-mismatch"))
    case("code section without function section", assemble([(1, S[1]), (10, S[10])]),
         (D, "func-code-count-mismatch"))
    case("function/code counts differ", with_sec(3, vec([u(0), u(0)])), (D, "func-code-count-mismatch"))
    raw = b"\x00" + lget(0) + lget(1) + op("i32.add", "end")
    case("body size one too large (swallows the byte after the body)",
         with_sec(10, vec([u(len(raw) + 1) + raw]) + b"\x01"), (D, "body-size-mismatch"))
    case("body size too small (cuts an immediate)", with_sec(10, u(1) + u(2) + b"\x00\x20" + b"\x00\x0b"),
         (D, "body-size-mismatch"))
    case("bytes after the closing end inside the body", with_sec(10, vec([u(len(raw) + 1) + raw + b"\x01"])),
         (D, "body-size-mismatch"))
    case("body size beyond the section", with_sec(10, u(1) + u(len(raw) + 5) + raw), (D, "section-size-mismatch"))
    case("bad UTF-8 in export name", with_sec(7, vec([name(b"a\xffb") + b"\x00\x00"])), (D, "bad-utf8"))
    case("overlong UTF-8 in export name", with_sec(7, vec([name(b"\xc0\x80") + b"\x00\x00"])), (D, "bad-utf8"))
    case("surrogate in import name", module(types=[v_v], imports=[("m", b"\xed\xa0\x80", b"\x00\x00")]),
         (D, "bad-utf8"))
    case("bad UTF-8 in custom section name", good + section(0, name(b"\x80x")), (D, "bad-utf8"))
    case("custom section name longer than the section", good + section(0, b"\x05ab"),
         (D, "section-size-mismatch"))
    case("bad export kind", with_sec(7, vec([name("add") + b"\x07\x00"])), (D, "bad-export-kind"))
    case("bad import kind", module(types=[v_v], imports=[("m", "n", b"\x07\x00")]), (D, "bad-import-kind"))
    case("one trailing byte", good + b"\x00", (D, "trailing-bytes"))
    case("bad limits flag", module(mems=[b"\x04\x01"]), (D, "bad-limits-flag"))
    case("shared memory flag 3 is post-1.0: V8 accepts (threads)", module(mems=[b"\x03\x01\x02"]),
         (D, "bad-limits-flag"), v8="accepts")
    case("too many locals", with_sec(10, vec([body([(0x80000000, I32), (0x80000000, I32)],
                                                   lget(0) + lget(1) + op("i32.add"))])),
         (D, "too-many-locals"))
    for o in (0x06, 0x12, 0x1C, 0x25, 0x27, 0xC5, 0xD3, 0xFB, 0xFF):
        case("bad opcode 0x%02x" % o, fn(bytes([o]) + i32c(0)), (D, "bad-opcode"))
    case("sign-extension opcode 0xc0 is post-1.0: V8 accepts", fn(i32c(1) + b"\xc0"), (D, "bad-opcode"),
         v8="accepts")
    case("saturating truncation 0xfc 0x00 is post-1.0: V8 accepts", fn(f32c(1.0) + b"\xfc\x00"),
         (D, "bad-opcode"), v8="accepts")
    case("bad block type 0x41", fn(bytes([O["block"], 0x41]) + i32c(0) + op("end")), (D, "bad-blocktype"))
    case("block type index is post-1.0: V8 accepts (multi-value)",
         fn(bytes([O["block"], 0x00]) + i32c(0) + op("end")), (D, "bad-blocktype"), v8="accepts")
    case("unterminated body", with_sec(10, vec([u(len(raw) - 1) + raw[:-1]])), (D, "unterminated-body"))
    case("unterminated block", fn(bytes([O["block"], I32]) + i32c(0)), (D, "unterminated-body"))
    case("else without if", fn(bytes([O["block"], I32]) + i32c(0) + op("else") + i32c(1) + op("end")),
         (D, "misplaced-else"))
    case("two else", fn(i32c(1) + bytes([O["if"], I32]) + i32c(0) + op("else") + i32c(1) + op("else") +
                        i32c(2) + op("end")), (D, "misplaced-else"))
    case("memory.size reserved byte", fn(op("memory.size", 1), mems=[limits(1)]), (D, "bad-reserved-byte"))
    case("call_indirect reserved byte", fn(i32c(0) + b"\x11\x00\x01", tables=[limits(1)]),
         (D, "bad-reserved-byte"))
    case("call_indirect table index as padded LEB is post-1.0: V8 accepts (reference types)",
         fn(i32c(0) + b"\x11\x00\x80\x00", tables=[limits(1)]), (D, "bad-reserved-byte"), v8="accepts")
    case("passive data segment is post-1.0: V8 accepts (bulk memory)",
         assemble({11: vec([b"\x01" + vec([b"\x0b"])])}), (D, "section-size-mismatch"), v8="accepts")
    case("passive element segment is post-1.0: V8 accepts (bulk memory)", assemble({
        1: vec([functype([], [])]), 3: vec([u(0)]), 9: vec([b"\x01\x00" + vec([u(0)])]),
        10: vec([body([], b"")])}), (D, "unterminated-body"), v8="accepts")
    case("bad table element type", assemble({4: vec([b"\x7f" + limits(1)])}), (D, "bad-elemtype"))
    case("bad global mutability", module(globals_=[(I32, 2, i32c(0))]), (D, "bad-mutability"))
    case("type section with missing vector", assemble([(1, b"")]), (D, "section-size-mismatch"))
    case("f32.const cut by the body end", with_sec(10, vec([u(4) + b"\x00\x43\x00\x00"])),
         (D, "body-size-mismatch"))
    # ---- validation rules
    case("function type index out of range", with_sec(3, vec([u(1)])), (V, "type-index-out-of-range"))
    case("import type index out of range", module(types=[v_v], imports=[("m", "f", b"\x00\x01")]),
         (V, "type-index-out-of-range"))
    case("call index out of range", fn(b"\x10\x01"), (V, "func-index-out-of-range"))
    case("local index out of range", fn(lget(1), locals_=[(1, I32)]), (V, "local-index-out-of-range"))
    case("local.set index out of range", fn(i32c(1) + lset(2) + i32c(0), types=[i_i], locals_=[(1, I32)]),
         (V, "local-index-out-of-range"))
    case("global index out of range", fn(op("global.get", 1), globals_=[(I32, 0, i32c(0))]),
         (V, "global-index-out-of-range"))
    case("label out of range", fn(bytes([O["block"], VOID]) + b"\x0c\x02" + op("end") + i32c(0)),
         (V, "label-out-of-range"))
    case("br_table label out of range", fn(i32c(0) + b"\x0e\x01\x00\x01"), (V, "label-out-of-range"))
    case("i32.add on f32", fn(i32c(1) + f32c(1.0) + op("i32.add")), (V, "type-mismatch"))
    case("result type mismatch", fn(i64c(1)), (V, "type-mismatch"))
    case("return type mismatch", fn(f64c(1.0) + op("return")), (V, "type-mismatch"))
    case("call argument mismatch", module(types=[i_i], funcs=[0, 0], codes=[
        ([], f32c(1.0) + b"\x10\x01"), ([], lget(0))]), (V, "type-mismatch"))
    case("local.set type mismatch", fn(f32c(0.0) + lset(0) + i32c(0), locals_=[(1, I32)]), (V, "type-mismatch"))
    case("if condition not i32", fn(f32c(0.0) + bytes([O["if"], VOID]) + op("end") + i32c(0)),
         (V, "type-mismatch"))
    case("if with result and no else", fn(i32c(1) + bytes([O["if"], I32]) + i32c(0) + op("end")),
         (V, "type-mismatch"))
    case("if arms disagree", fn(i32c(1) + bytes([O["if"], I32]) + i32c(0) + op("else") + f32c(0.0) + op("end")),
         (V, "type-mismatch"))
    case("select operands differ", fn(i32c(1) + i64c(1) + i32c(0) + op("select", "drop") + i32c(0)),
         (V, "type-mismatch"))
    case("br_table labels differ", fn(bytes([O["block"], I32, O["block"], VOID]) + i32c(0) + i32c(0) +
                                      b"\x0e\x01\x00\x01" + op("end") + i32c(0) + op("end")),
         (V, "type-mismatch"))
    case("br_table labels differ in unreachable code: 1.0 rejects, V8 accepts (later spec: arity only)",
         fn(bytes([O["block"], I32, O["block"], F32]) + op("unreachable") + b"\x0e\x01\x00\x01" +
            op("end", "drop") + i32c(0) + op("end")), (V, "type-mismatch"), v8="accepts")
    case("br value type mismatch", fn(bytes([O["block"], I32]) + f32c(1.0) + b"\x0c\x00" + op("end")),
         (V, "type-mismatch"))
    case("loop label takes no value", fn(bytes([O["loop"], I32]) + i32c(1) + b"\x0d\x00" + op("end")),
         (V, "stack-underflow"))
    case("i32.add with one operand", fn(i32c(1) + op("i32.add")), (V, "stack-underflow"))
    case("block cannot see outer operands", fn(i32c(1) + bytes([O["block"], I32]) + op("i32.eqz", "end") +
                                               op("i32.add")), (V, "stack-underflow"))
    case("drop on empty stack", fn(op("drop") + i32c(0)), (V, "stack-underflow"))
    case("empty body for a result", fn(b""), (V, "stack-underflow"))
    case("two values for one result", fn(i32c(1) + i32c(2)), (V, "stack-height-at-end"))
    case("value left in a void block", fn(bytes([O["block"], VOID]) + i32c(1) + op("end") + i32c(0)),
         (V, "stack-height-at-end"))
    case("value left before else", fn(i32c(1) + bytes([O["if"], VOID]) + i32c(1) + op("else", "end") + i32c(0)),
         (V, "stack-height-at-end"))
    case("duplicate export name", module(**dict(add, exports=[("a", "func", 0), ("a", "func", 0)])),
         (V, "duplicate-export-name"))
    case("duplicate export name across kinds", module(**dict(add, mems=[limits(1)], exports=[
        ("a", "func", 0), ("a", "mem", 0)])), (V, "duplicate-export-name"))
    case("export func index out of range", module(**dict(add, exports=[("a", "func", 1)])),
         (V, "export-index-out-of-range"))
    case("export of a missing memory", module(**dict(add, exports=[("m", "mem", 0)])),
         (V, "export-index-out-of-range"))
    case("export of a missing global", module(**dict(add, exports=[("g", "global", 0)])),
         (V, "export-index-out-of-range"))
    case("two tables are post-1.0: V8 accepts (reference types)", module(tables=[limits(1), limits(1)]),
         (V, "multiple-tables"), v8="accepts")
    case("two memories", module(mems=[limits(1), limits(1)]), (V, "multiple-memories"))
    case("imported plus defined memory", module(imports=[("m", "m", b"\x02" + limits(1))], mems=[limits(1)]),
         (V, "multiple-memories"))
    case("memory min > max", module(mems=[limits(2, 1)]), (V, "limits-min-gt-max"))
    case("table min > max", module(tables=[limits(2, 1)]), (V, "limits-min-gt-max"))
    case("memory min 65537", module(mems=[limits(65537)]), (V, "memory-too-large"))
    case("memory max 65537", module(mems=[limits(1, 65537)]), (V, "memory-too-large"))
    case("load without memory", fn(i32c(0) + b"\x28\x02\x00"), (V, "no-memory"))
    case("memory.grow without memory", fn(i32c(0) + op("memory.grow", 0)), (V, "no-memory"))
    case("data segment without memory", module(datas=[(i32c(0), b"x")]), (V, "no-memory"))
    case("call_indirect without table", fn(i32c(0) + b"\x11\x00\x00"), (V, "no-table"))
    case("call_indirect type out of range", fn(i32c(0) + b"\x11\x05\x00", tables=[limits(1)]),
         (V, "type-index-out-of-range"))
    case("element segment without table", module(**dict(add, elems=[(i32c(0), [0])])), (V, "unknown-table"))
    case("element segment function out of range", module(**dict(add, tables=[limits(1)],
                                                              elems=[(i32c(0), [1])])),
         (V, "func-index-out-of-range"))
    case("global.set of an immutable global", fn(i32c(1) + op("global.set", 0) + i32c(0),
                                                  globals_=[(I32, 0, i32c(0))]), (V, "immutable-global-set"))
    case("non-constant global initialiser", module(globals_=[(I32, 0, i32c(1) + i32c(2) + op("i32.add"))]),
         (V, "const-expr"))
    case("initialiser reads a defined global", module(globals_=[(I32, 0, i32c(1)), (I32, 0, op("global.get", 0))]),
         (V, "const-expr"))
    case("initialiser reads a mutable import", module(imports=[("m", "g", b"\x03\x7f\x01")],
                                                      globals_=[(I32, 0, op("global.get", 0))]),
         (V, "const-expr"))
    case("initialiser of the wrong type", module(globals_=[(I32, 0, i64c(1))]), (V, "type-mismatch"))
    case("empty initialiser", module(globals_=[(I32, 0, b"")]), (V, "type-mismatch"))
    case("data offset not i32", module(mems=[limits(1)], datas=[(i64c(0), b"x")]), (V, "type-mismatch"))
    case("element offset not constant", module(**dict(add, tables=[limits(1)],
                                                      elems=[(i32c(0) + op("i32.eqz"), [0])])),
         (V, "const-expr"))
    case("start function takes a parameter", module(**dict(add, start=0)), (V, "start-func-type"))
    case("start function index out of range", module(types=[v_v], funcs=[0], codes=[([], b"")], start=1),
         (V, "func-index-out-of-range"))
    case("alignment too large (i32.load align 3)", fn(i32c(0) + b"\x28\x03\x00", mems=[limits(1)]),
         (V, "alignment-too-large"))
    case("alignment too large (i64.store8 align 1)", fn(i32c(0) + i64c(0) + b"\x3c\x01\x00" + i32c(0),
                                                        mems=[limits(1)]), (V, "alignment-too-large"))
    case("store operands swapped", fn(f32c(0.0) + i32c(0) + b"\x38\x02\x00" + i32c(0), mems=[limits(1)]),
         (V, "type-mismatch"))
    case("unreachable code is still typed", fn(op("unreachable") + f32c(0.0) + op("i32.eqz")),
         (V, "type-mismatch"))
    case("call of an import with wrong arity", module(
        types=[i_i], imports=[("m", "f", b"\x00\x00")], funcs=[0], codes=[([], b"\x10\x00")]),
        (V, "stack-underflow"))


invalid_cases()


def run_part1(node, keep):
    fails = []
    jobs = [(c["data"], [(e, a) for e, a, _x in c["calls"]] if c["calls"] else None) for c in CASES]
    theirs = run_node(node, jobs, keep) if node else [None] * len(CASES)
    ncalls = nrules = 0
    for c, nrec in zip(CASES, theirs):
        nm = c["name"]
        verdict, res = run_mine(c["data"], jobs[CASES.index(c)][1])
        if c["expect"] == "ok":
            if not verdict[0]:
                fails.append("%s: expected valid, got %s" % (nm, verdict))
                continue
        else:
            nrules += 1
            if verdict[0] or (verdict[1], verdict[2]) != c["expect"]:
                fails.append("%s: expected %s, got %s" % (nm, c["expect"], verdict))
        if nrec is not None:
            want_v8 = verdict[0] or c["v8"] == "accepts"
            if nrec["valid"] != want_v8:
                fails.append("%s: V8 says valid=%s (%s), reference says %s" % (
                    nm, nrec["valid"], nrec.get("error"), verdict))
        if res is None:
            continue
        mine_inst = bool(res) and res[0][0] == "insterr"
        if c["expect_insterr"] != mine_inst or (nrec is not None and ("insterr" in nrec) != mine_inst):
            fails.append("%s: instantiation: reference %s, V8 %s, expected failure=%s" % (
                nm, res[0] if mine_inst else "ok", nrec and nrec.get("insterr"), c["expect_insterr"]))
        if mine_inst or (nrec is not None and "insterr" in nrec):
            continue
        for i, ((export, args, expected), got) in enumerate(zip(c["calls"], res)):
            ncalls += 1
            tag = "%s: %s(%s)" % (nm, export, ", ".join(str(v) for _t, v in args))
            rts = result_types(c["data"], export)
            if expected == "trap":
                if got[0] != "trap":
                    fails.append("%s: expected a trap, got %s" % (tag, got))
            elif expected is not None:
                if got[0] != "ok" or len(got[1]) != len(expected) or not all(
                        same_value(t, g, float(e) if t[0] == "f" else e)
                        for t, g, e in zip(rts, got[1], expected)):
                    fails.append("%s: expected %s, got %s" % (tag, expected, got))
            if nrec is not None:
                nv = node_value(nrec["results"][i])
                if nv[0] != got[0]:
                    fails.append("%s: V8 %s, reference %s" % (tag, nv, got))
                elif nv[0] == "ok":
                    if (nv[1] is None) != (not got[1]) or (got[1] and not same_value(rts[0], got[1][0], nv[1])):
                        fails.append("%s: V8 %r, reference %r" % (tag, nv[1], got[1]))
    print("part 1: %d hand-assembled modules (%d valid, %d invalid with expected rule), %d calls, V8 %s: "
          "%d failure(s)" % (len(CASES), len(CASES) - nrules, nrules, ncalls,
                             "compared" if node else "absent", len(fails)))
    return fails


# ---------------------------------------------------------------------------------------------
# part 2: random valid-by-construction functions over i32 / f32
I32_CONSTS = [0, 1, -1, 2, 3, 7, 31, 32, 33, 0x7F, 0x80, 0xFF, 0xFFFF, 2 ** 31 - 1, -2 ** 31, -2 ** 31 + 1,
              0x55555555, 16777216, 16777217, 0x4B000000, 0x7F800000, 0x3F800000, -2]
F32_CONSTS = [0.0, -0.0, 1.0, -1.0, 0.5, -0.5, 1.5, 2.5, -2.5, 3.5, 0.1, 100.25, float("inf"),
              float("-inf"), float("nan"), 3.4028234663852886e38, 1e-45, 1.1754943508222875e-38,
              2147483648.0, -2147483648.0, 2147483520.0, 4294967296.0, 4294967040.0, -2147483904.0,
              16777216.0, 8388607.5, 8388608.0, 0.75, -0.75, 1e10, 1e-10]
I32_BIN = ["i32." + n for n in _IBIN * 3 + _ICMP]          # arithmetic weighted over comparisons
I32_UN = ["i32." + n for n in _IUN + ["eqz"]]
F32_BIN = ["f32." + n for n in ("add", "sub", "mul", "div", "min", "max")]     # no copysign: NaN sign
F32_UN = ["f32." + n for n in _FUN]
F32_CMP = ["f32." + n for n in _FCMP]
PARAMS = [I32, I32, F32, F32]
LOCALS = [I32, F32, I32, F32]          # local indices 4..7


class Gen:
    def __init__(self, rng):
        self.r = rng
        self.labels = []               # enclosing label types, innermost last (None = no value)

    def local_of(self, t):
        return self.r.choice([i for i, x in enumerate(PARAMS + LOCALS) if x == t])

    def leaf(self, t):
        r = self.r
        if r.random() < 0.5:
            return lget(self.local_of(t))
        if t == I32:
            return i32c(r.choice(I32_CONSTS) if r.random() < 0.7 else r.randrange(-2 ** 31, 2 ** 31))
        if r.random() < 0.8:
            return f32c(r.choice(F32_CONSTS))
        bits = r.getrandbits(32)
        if bits & 0x7F800000 == 0x7F800000 and bits & 0x7FFFFF:
            bits = 0x7FC00000          # only the canonical NaN: payloads are not modelled
        return f32c(bits)

    def block(self, t, inner):
        """run inner() with a new label of type t on the label stack"""
        self.labels.append(t)
        try:
            return inner()
        finally:
            self.labels.pop()

    def branch_prefix(self, d):
        """code with no net stack effect that may branch to a random enclosing label"""
        k = self.r.randrange(len(self.labels))
        lt = self.labels[-1 - k]
        if lt is None:
            return self.expr(I32, d - 1) + b"\x0d" + u(k)
        return self.expr(lt, d - 1) + self.expr(I32, d - 1) + b"\x0d" + u(k) + op("drop")

    def expr(self, t, d):
        r = self.r
        if d <= 0 or r.random() < 0.2:
            return self.leaf(t)
        c = r.random()
        E = self.expr
        if c < 0.30:
            if t == I32:
                return E(I32, d - 1) + E(I32, d - 1) + op(r.choice(I32_BIN))
            return E(F32, d - 1) + E(F32, d - 1) + op(r.choice(F32_BIN))
        if c < 0.42:
            if t == I32 and r.random() < 0.6:      # clz/ctz/popcnt/eqz collapse values: keep them rarer
                return E(I32, d - 1) + E(I32, d - 1) + op(r.choice(I32_BIN))
            return E(t, d - 1) + op(r.choice(I32_UN if t == I32 else F32_UN))
        if c < 0.52:
            if t == I32:
                if r.random() < 0.5:
                    return E(F32, d - 1) + E(F32, d - 1) + op(r.choice(F32_CMP))
                return E(F32, d - 1) + op(r.choice(["i32.trunc_f32_s", "i32.trunc_f32_u"]))
            return E(I32, d - 1) + op(r.choice(["f32.convert_i32_s", "f32.convert_i32_u", "f32.reinterpret_i32"]))
        if c < 0.60:
            return E(t, d - 1) + E(t, d - 1) + E(I32, d - 1) + op("select")
        if c < 0.67:
            return E(t, d - 1) + ltee(self.local_of(t))
        if c < 0.77:
            return E(I32, d - 1) + bytes([O["if"], t]) + self.block(
                t, lambda: self.arm(t, d - 1) + op("else") + self.arm(t, d - 1)) + op("end")
        if c < 0.88:
            return bytes([O["block"], t]) + self.block(t, lambda: self.branch_prefix(d) + self.arm(t, d - 1)) + \
                op("end")
        if c < 0.94:
            return self.stmt(d - 1) + E(t, d - 1)
        return self.branch_prefix(d) + E(t, d - 1)

    def arm(self, t, d):
        """a block/if arm producing t; sometimes ends in br/return/unreachable (stack-polymorphic)"""
        c = self.r.random()
        if c < 0.80:
            return self.expr(t, d)
        if c < 0.88:
            k = self.r.randrange(len(self.labels))
            lt = self.labels[-1 - k]
            return (self.expr(lt, d) if lt is not None else b"") + b"\x0c" + u(k)
        if c < 0.94:
            return self.expr(self.labels[0], d) + op("return") + (self.leaf(t) if self.r.random() < 0.5 else b"")
        if c < 0.97:
            return op("unreachable") + self.r.choice([
                b"", self.leaf(t), op("select"), op("i32.add" if t == I32 else "f32.neg"),
                op("drop", "drop") + self.leaf(t), op("i64.eqz", "drop", "select")])
        return self.expr(t, d)

    def stmt(self, d):
        r = self.r
        c = r.random()
        t = r.choice([I32, F32])
        if d <= 0 or c < 0.40:
            return self.expr(t, d) + lset(self.local_of(t))
        if c < 0.50:
            return self.expr(t, d) + op("drop")
        if c < 0.65:
            return self.expr(I32, d - 1) + bytes([O["if"], VOID]) + self.block(
                None, lambda: self.stmts(d - 1) + (op("else") + self.stmts(d - 1) if r.random() < 0.5 else b"")) \
                + op("end")
        if c < 0.80:
            return bytes([O["block"], VOID]) + self.block(
                None, lambda: self.stmts(d - 1) + self.branch_prefix(d) + self.stmts(d - 1)) + op("end")
        if c < 0.90:
            n = r.randrange(1, 4)
            code = bytes([O["block"], VOID]) * (n + 1)
            self.labels.extend([None] * (n + 1))
            code += self.expr(I32, d - 1) + b"\x0e" + vec([u(r.randrange(n + 1)) for _ in range(n)]) + \
                u(r.randrange(n + 1))
            for _ in range(n + 1):
                self.labels.pop()
                code += op("end") + self.stmts(d - 1)
            return code
        return self.expr(I32, d - 1) + bytes([O["if"], VOID]) + self.block(
            None, lambda: self.expr(self.labels[0], d - 1) + op("return")) + op("end")

    def stmts(self, d):
        return b"".join(self.stmt(d) for _ in range(self.r.randrange(0, 3)))

    def function(self):
        rt = self.r.choice([I32, F32])
        self.labels = [rt]
        d = self.r.randrange(2, 6)
        code = self.stmts(d) + self.expr(rt, d)
        if rt == I32:                  # fold the i32 locals into the result so that they are observed
            code += lget(4) + i32c(31) + op("i32.mul", "i32.xor") + lget(6) + i32c(7) + op("i32.rotl", "i32.add")
        else:
            code += lget(5) + op("f32.add") + lget(7) + op("f32.sub")
        return rt, code


def arg_vectors(rng):
    vs = [(0, 0, 0.0, 0.0), (2 ** 31 - 1, -2 ** 31, float("inf"), float("nan")),
          (33, -7, -0.0, 3.4028234663852886e38)]
    for _ in range(5):
        vs.append((rng.choice(I32_CONSTS) if rng.random() < 0.3 else rng.randrange(-2 ** 31, 2 ** 31),
                   rng.randrange(-2 ** 31, 2 ** 31) >> rng.choice([0, 0, 8, 20, 27]),
                   rng.choice(F32_CONSTS) if rng.random() < 0.3 else
                   struct.unpack("<f", struct.pack("<f", rng.uniform(-100, 100)))[0],
                   struct.unpack("<f", struct.pack("<f", rng.uniform(-1, 1) * 10.0 ** rng.randrange(-3, 12)))[0]))
    return vs


def random_module(rng, nfuncs=20):
    g = Gen(rng)
    fns = [g.function() for _ in range(nfuncs)]
    parts = dict(types=[(PARAMS, [I32]), (PARAMS, [F32])], funcs=[0 if rt == I32 else 1 for rt, _c in fns],
                 exports=[("f%d" % i, "func", i) for i in range(nfuncs)],
                 codes=[([(1, I32), (1, F32), (1, I32), (1, F32)], c) for _rt, c in fns])
    return parts, fns


def run_part2(node, keep, rng, nmodules=100, nfuncs=20):
    fails, jobs, metas = [], [], []
    for _ in range(nmodules):
        parts, fns = random_module(rng, nfuncs)
        calls = [("f%d" % i, [A("i32", a), A("i32", b), A("f32", c), A("f32", d)])
                 for i in range(nfuncs) for (a, b, c, d) in arg_vectors(rng)]
        jobs.append((module(**parts), calls))
        metas.append((parts, fns))
    theirs = run_node(node, jobs, keep) if node else [None] * len(jobs)
    ncalls = ntraps = ninstr = 0
    t0 = time.time()
    for mi, ((data, calls), nrec, (_parts, fns)) in enumerate(zip(jobs, theirs, metas)):
        verdict, res = run_mine(data, calls)
        if not verdict[0]:
            fails.append("random module %d: generator output rejected: %s" % (mi, verdict))
            continue
        ninstr += sum(len(b) for _l, b in decode(data).codes)
        if nrec is None:
            continue
        if not nrec["valid"] or "insterr" in nrec:
            fails.append("random module %d: V8 rejects: %s" % (mi, nrec.get("error") or nrec.get("insterr")))
            continue
        for ci, ((export, args), got) in enumerate(zip(calls, res)):
            ncalls += 1
            nv = node_value(nrec["results"][ci])
            rt = TNAME[fns[int(export[1:])][0]]
            ntraps += got[0] == "trap"
            if nv[0] != got[0] or (nv[0] == "ok" and not same_value(rt, got[1][0], nv[1])):
                fails.append("random module %d %s%s: V8 %s, reference %s" % (mi, export, [v for _t, v in args],
                                                                            nv, got))
    print("part 2: %d random functions in %d modules (%d instructions), %d calls (%d trapped), V8 %s, "
          "%.1fs: %d failure(s)" % (nmodules * nfuncs, nmodules, ninstr, ncalls, ntraps,
                                    "compared" if node else "absent", time.time() - t0, len(fails)))
    return fails, metas


# ---------------------------------------------------------------------------------------------
# part 3: mutated modules, verdict vs WebAssembly.validate
def mutate_bytes(rng, data, lo=8):
    data = bytearray(data)
    for _ in range(rng.choice([1, 1, 1, 2, 3])):
        if len(data) <= lo:
            break
        i = rng.randrange(lo, len(data))
        c = rng.random()
        if c < 0.35:
            data[i] = rng.randrange(256)
        elif c < 0.55:
            data[i] = rng.choice([0x00, 0x01, 0x0B, 0x40, 0x7F, 0x7E, 0x7D, 0x80, 0xFF, 0x05, 0x0C, 0x20, 0x41])
        elif c < 0.70:
            data[i] = (data[i] + rng.choice([1, -1])) & 0xFF
        elif c < 0.80:
            data[i] ^= 1 << rng.randrange(8)
        elif c < 0.90:
            data.insert(i, rng.randrange(256))
        else:
            del data[i]
    return bytes(data)


def mutants(rng, metas, count):
    """half raw byte mutations of whole modules (hand-made valid ones and random ones), half mutations
    inside one function body / one section payload with all size fields rebuilt (reaches the validator)"""
    out = []
    valid = [c["data"] for c in CASES if c["expect"] == "ok" and len(c["data"]) > 8 and len(c["data"]) < 4000]
    small = [module(**random_module(rng, 2)[0]) for _ in range(30)]
    while len(out) < count:
        out.append(mutate_bytes(rng, rng.choice(valid + small)))
    while len(out) < 2 * count:
        parts, fns = random_module(rng, rng.randrange(1, 4))
        if rng.random() < 0.3:
            parts.update(mems=[limits(1, 2)], tables=[limits(2)], globals_=[(I32, 1, i32c(5)), (F32, 0, f32c(1.0))],
                         elems=[(i32c(0), [0])], datas=[(i32c(3), b"abc")])
        if rng.random() < 0.75:
            codes = list(parts["codes"])
            k = rng.randrange(len(codes))
            codes[k] = (codes[k][0], mutate_bytes(rng, codes[k][1], 0))
            parts["codes"] = codes
            out.append(module(**parts))
        else:
            secs = sections_of(**parts)
            sid = rng.choice(sorted(secs))
            secs[sid] = mutate_bytes(rng, secs[sid], 0)
            out.append(assemble(secs))
    return out


POST_MVP_OPCODES = set(range(0xC0, 0xC5)) | {0xFC, 0xFD, 0xFE, 0xD0, 0xD1, 0xD2, 0x1C, 0x25, 0x26,
                                             0x06, 0x07, 0x08, 0x09, 0x12, 0x13, 0x18, 0x19}


def v8_laxer(data, verdict):
    """The reference rejects and V8 accepts: name the post-1.0 feature that explains it, or None.
    Every class below is a feature V8 (node 20) ships on top of WebAssembly 1.0; the 1.0 binary
    format / validation rules reject these modules, so the reference verdict stands."""
    _ok, stage, rule, detail = verdict
    off = int(detail.split(":")[0].split("0x")[1], 16) if stage == "decode" else None
    if rule == "bad-opcode" and data[off] in POST_MVP_OPCODES:
        return "post-MVP opcode (sign-extension 0xC0-0xC4, 0xFC sat-trunc/bulk, 0xFD simd, 0xFE threads, " \
               "reference types 0xD0-0xD2 / 0x1C / 0x25 / 0x26, exceptions 0x06-0x09/0x18/0x19, tail calls 0x12/0x13)"
    if rule == "bad-blocktype":
        return "multi-value: block type is a type index (s33)"
    if rule == "too-many-results":
        return "multi-value: more than one result"
    if rule == "unknown-section" and data[off] in (12, 13):
        return "datacount (bulk memory) / tag (exceptions) section"
    if rule == "bad-limits-flag" and data[off] in (2, 3):
        return "threads: shared memory limits flag"
    if rule in ("bad-valtype", "bad-elemtype") and data[off] in (0x7B, 0x70, 0x6F):
        return "v128 / funcref / externref value types (simd, reference types)"
    if rule == "bad-reserved-byte" and "call_indirect" in detail:
        return "reference types: call_indirect carries a table index (LEB), not a reserved byte"
    if rule in ("bad-import-kind", "bad-export-kind") and data[off] == 4:
        return "exceptions: tag import/export kind"
    if rule == "multiple-tables":
        return "reference types: several tables"
    if stage == "decode" and _in_section(data, off, (9, 11)):
        return "bulk memory: element/data segments start with a flags field (passive/declared segments)"
    if rule == "type-mismatch" and "br_table" in detail:
        return "br_table in unreachable code: later spec versions only require equal arity"
    return None


def _in_section(data, off, ids):
    try:
        decode(data)
    except DecodeError as e:
        for sec in e.module.sections:
            if sec["id"] in ids and sec["payload_offset"] <= off <= sec["payload_offset"] + sec["size_field_value"]:
                return True
    return False


def v8_stricter(data, nrec):
    """The reference accepts and V8 rejects: only V8 implementation limits are tolerated."""
    err = nrec.get("error") or ""
    for marker in ("local count too large", "exceeds internal limit"):
        if marker in err:
            return "V8 implementation limit: " + err
    return None


def run_part3(node, keep, rng, metas, count=2000):
    if not node:
        print("part 3: skipped (no node)")
        return []
    muts = mutants(rng, metas, count)
    theirs = run_node(node, [(d, None) for d in muts], keep)
    fails, tolerated, nvalid, by_rule = [], {}, 0, {}
    t0 = time.time()
    for i, (data, nrec) in enumerate(zip(muts, theirs)):
        try:
            verdict = validate_bytes(data)
        except Exception as e:                                        # the reference must never crash
            fails.append("mutant %d: reference crashed: %r  %s" % (i, e, data.hex()))
            continue
        nvalid += verdict[0]
        by_rule[verdict[2]] = by_rule.get(verdict[2], 0) + 1
        if verdict[0] == nrec["valid"]:
            continue
        why = v8_stricter(data, nrec) if verdict[0] else v8_laxer(data, verdict)
        if why:
            tolerated[why] = tolerated.get(why, 0) + 1
        else:
            fails.append("mutant %d: reference %s, V8 valid=%s (%s)  %s" % (
                i, verdict, nrec["valid"], nrec.get("error"), data.hex()))
    print("part 3: %d mutants (%d valid for both), %.1fs, %d distinct reference rules hit: %d failure(s)"
          % (len(muts), nvalid, time.time() - t0, len(by_rule) - 1, len(fails)))
    for why, n in sorted(tolerated.items()):
        print("   tolerated x%d: %s" % (n, why))
    return fails


# ---------------------------------------------------------------------------------------------
def perf():
    rng = random.Random(7)
    parts, _f = random_module(rng, 12)
    data = module(**parts)
    while len(data) < 900 or len(data) > 1400:
        parts, _f = random_module(rng, rng.randrange(4, 16))
        data = module(**parts)
    n = 200
    t0 = time.perf_counter()
    for _ in range(n):
        validate(decode(data))
    per = (time.perf_counter() - t0) / n * 1000
    # sum of i*i for i < n, 13 instructions per iteration
    loop = (bytes([O["block"], VOID, O["loop"], VOID]) + lget(0) + op("i32.eqz") + b"\x0d\x01" + lget(1) +
            lget(0) + lget(0) + op("i32.mul", "i32.add") + lset(1) + lget(0) + i32c(1) + op("i32.sub") +
            lset(0) + b"\x0c\x00" + op("end", "end") + lget(1))
    m = decode(module(types=[([I32], [I32])], funcs=[0], exports=[("f", "func", 0)], codes=[([(1, I32)], loop)]))
    inst = Instance(m)
    t0 = time.perf_counter()
    r = inst.invoke("f", [100000])
    dt = time.perf_counter() - t0
    ok = r == [((sum(i * i for i in range(100001)) + 2 ** 31) % 2 ** 32) - 2 ** 31]
    try:
        Instance(m, max_steps=1000).invoke("f", [100000])
        ok = False
    except StepLimit:
        pass
    print("perf: decode+validate of a %d-byte module %.2f ms; interpreter %.0f instructions/s%s"
          % (len(data), per, inst.steps / dt, "" if ok else "  (WRONG RESULT)"))
    fails = [] if ok else ["perf loop: wrong result or missing StepLimit"]
    if per > 5:
        fails.append("decode+validate too slow: %.2f ms" % per)
    if inst.steps / dt < 200000:
        fails.append("interpreter too slow: %.0f instructions/s" % (inst.steps / dt))
    return fails


def main(argv):
    seed = int(argv[argv.index("--seed") + 1]) if "--seed" in argv else 20260922
    keep = "--keep" in argv
    node = find_node()
    print("node: %s   seed: %d" % (node or "not found - V8 comparisons skipped", seed))
    rng = random.Random(seed)
    fails = run_part1(node, keep)
    f2, metas = run_part2(node, keep, rng)
    fails += f2
    fails += run_part3(node, keep, rng, metas)
    fails += perf()
    for f in fails[:50]:
        print("FAIL", f[:1500])
    print("RESULT: %s (%d failure(s))" % ("ok" if not fails else "FAILED", len(fails)))
    return 1 if fails else 0


if __name__ == "__main__":
    sys.exit(main(sys.argv[1:]))
