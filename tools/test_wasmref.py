#!/venv/bin/python
"""Self-test of the WebAssembly 1.0 reference (nslverif/ref/wasm_{decode,validate,interp}.py).

  1. hand-assembled valid / invalid modules: expected verdict + rule, expected results, and V8
  2. random valid-by-construction i32/f32 functions: interpreter vs V8
  3. byte-mutated modules: validate_bytes verdict vs WebAssembly.validate
Run: /venv/bin/python /verif/tools/test_wasmref.py [--seed N] [--keep]
Exit status is non-zero on any disagreement.  node is optional (V8 comparisons are skipped without it).
"""
import json
import math
import os
import random
import shutil
import struct
import subprocess
import sys
import tempfile
import time

sys.path.insert(0, os.path.join(os.path.dirname(os.path.abspath(__file__)), ".."))
from nslverif.ref.wasm_decode import decode, DecodeError            # noqa: E402
from nslverif.ref.wasm_validate import validate, validate_bytes, ValidationError   # noqa: E402
from nslverif.ref.wasm_interp import Instance, Trap, StepLimit, Unsupported, LinkError  # noqa: E402

# ---------------------------------------------------------------------------------------------
# tiny assembler
I32, I64, F32, F64 = 0x7F, 0x7E, 0x7D, 0x7C
TNAME = {I32: "i32", I64: "i64", F32: "f32", F64: "f64"}
VOID = 0x40


def u(n):
    out = bytearray()
    while True:
        b = n & 0x7F
        n >>= 7
        if n:
            out.append(b | 0x80)
        else:
            out.append(b)
            return bytes(out)


def s(n):
    out = bytearray()
    while True:
        b = n & 0x7F
        n >>= 7
        if (n == 0 and not b & 0x40) or (n == -1 and b & 0x40):
            out.append(b)
            return bytes(out)
        out.append(b | 0x80)


def vec(items):
    return u(len(items)) + b"".join(items)


def name(text):
    raw = text if isinstance(text, bytes) else text.encode()
    return u(len(raw)) + raw


def section(sid, payload):
    return bytes([sid]) + u(len(payload)) + payload


def functype(params, results):
    return b"\x60" + vec([bytes([t]) for t in params]) + vec([bytes([t]) for t in results])


def limits(mn, mx=None):
    return (b"\x00" + u(mn)) if mx is None else (b"\x01" + u(mn) + u(mx))


def body(local_groups, code, end=True):
    raw = vec([u(n) + bytes([t]) for (n, t) in local_groups]) + code + (b"\x0b" if end else b"")
    return u(len(raw)) + raw


HEADER = b"\0asm\x01\0\0\0"
KIND = {"func": 0, "table": 1, "mem": 2, "global": 3}


def sections_of(types=(), imports=(), funcs=(), tables=(), mems=(), globals_=(), exports=(),
                start=None, elems=(), codes=(), datas=()):
    """-> ordered dict id -> payload.  types: [(params, results)]; imports: [(mod, name, descbytes)];
    funcs: [typeidx]; tables/mems: [limits bytes]; globals_: [(valtype, mut, initcode)];
    exports: [(name, kind, idx)]; elems: [(offsetcode, [funcidx])]; codes: [(localgroups, code)];
    datas: [(offsetcode, bytes)]"""
    secs = {}
    if types:
        secs[1] = vec([functype(p, r) for p, r in types])
    if imports:
        secs[2] = vec([name(m) + name(n) + d for m, n, d in imports])
    if funcs:
        secs[3] = vec([u(t) for t in funcs])
    if tables:
        secs[4] = vec([b"\x70" + t for t in tables])
    if mems:
        secs[5] = vec(list(mems))
    if globals_:
        secs[6] = vec([bytes([t, m]) + init + b"\x0b" for t, m, init in globals_])
    if exports:
        secs[7] = vec([name(n) + bytes([KIND[k]]) + u(i) for n, k, i in exports])
    if start is not None:
        secs[8] = u(start)
    if elems:
        secs[9] = vec([u(0) + off + b"\x0b" + vec([u(f) for f in fs]) for off, fs in elems])
    if codes:
        secs[10] = vec([body(lg, c) for lg, c in codes])
    if datas:
        secs[11] = vec([u(0) + off + b"\x0b" + vec([bytes([x]) for x in d]) for off, d in datas])
    return secs


def assemble(secs):
    """secs: dict id->payload, or list of (id, payload) / raw bytes for full control."""
    if isinstance(secs, dict):
        secs = sorted(secs.items())
    return HEADER + b"".join(x if isinstance(x, bytes) else section(*x) for x in secs)


def module(**kw):
    return assemble(sections_of(**kw))


# opcode names (independent of the modules under test)
O = {"unreachable": 0x00, "nop": 0x01, "block": 0x02, "loop": 0x03, "if": 0x04, "else": 0x05,
     "end": 0x0B, "br": 0x0C, "br_if": 0x0D, "br_table": 0x0E, "return": 0x0F, "call": 0x10,
     "call_indirect": 0x11, "drop": 0x1A, "select": 0x1B, "local.get": 0x20, "local.set": 0x21,
     "local.tee": 0x22, "global.get": 0x23, "global.set": 0x24, "memory.size": 0x3F,
     "memory.grow": 0x40}
for _i, _n in enumerate("i32.load i64.load f32.load f64.load i32.load8_s i32.load8_u i32.load16_s "
                        "i32.load16_u i64.load8_s i64.load8_u i64.load16_s i64.load16_u i64.load32_s "
                        "i64.load32_u i32.store i64.store f32.store f64.store i32.store8 i32.store16 "
                        "i64.store8 i64.store16 i64.store32".split()):
    O[_n] = 0x28 + _i
_ICMP = "eq ne lt_s lt_u gt_s gt_u le_s le_u ge_s ge_u".split()
_FCMP = "eq ne lt gt le ge".split()
_IUN = "clz ctz popcnt".split()
_IBIN = "add sub mul div_s div_u rem_s rem_u and or xor shl shr_s shr_u rotl rotr".split()
_FUN = "abs neg ceil floor trunc nearest sqrt".split()
_FBIN = "add sub mul div min max copysign".split()
for _t, _eqz, _un, _bin in (("i32", 0x45, 0x67, 0x6A), ("i64", 0x50, 0x79, 0x7C)):
    O[_t + ".eqz"] = _eqz
    for _i, _n in enumerate(_ICMP):
        O["%s.%s" % (_t, _n)] = _eqz + 1 + _i
    for _i, _n in enumerate(_IUN):
        O["%s.%s" % (_t, _n)] = _un + _i
    for _i, _n in enumerate(_IBIN):
        O["%s.%s" % (_t, _n)] = _bin + _i
for _t, _cmp, _un, _bin in (("f32", 0x5B, 0x8B, 0x92), ("f64", 0x61, 0x99, 0xA0)):
    for _i, _n in enumerate(_FCMP):
        O["%s.%s" % (_t, _n)] = _cmp + _i
    for _i, _n in enumerate(_FUN):
        O["%s.%s" % (_t, _n)] = _un + _i
    for _i, _n in enumerate(_FBIN):
        O["%s.%s" % (_t, _n)] = _bin + _i
for _i, _n in enumerate("i32.wrap_i64 i32.trunc_f32_s i32.trunc_f32_u i32.trunc_f64_s i32.trunc_f64_u "
                        "i64.extend_i32_s i64.extend_i32_u i64.trunc_f32_s i64.trunc_f32_u "
                        "i64.trunc_f64_s i64.trunc_f64_u f32.convert_i32_s f32.convert_i32_u "
                        "f32.convert_i64_s f32.convert_i64_u f32.demote_f64 f64.convert_i32_s "
                        "f64.convert_i32_u f64.convert_i64_s f64.convert_i64_u f64.promote_f32 "
                        "i32.reinterpret_f32 i64.reinterpret_f64 f32.reinterpret_i32 "
                        "f64.reinterpret_i64".split()):
    O[_n] = 0xA7 + _i
assert O["f64.reinterpret_i64"] == 0xBF and O["i64.rotr"] == 0x8A and O["f64.copysign"] == 0xA6


def i32c(n):
    return b"\x41" + s(n)


def i64c(n):
    return b"\x42" + s(n)


def f32c(x):
    return b"\x43" + (struct.pack("<I", x) if isinstance(x, int) else struct.pack("<f", x))


def f64c(x):
    return b"\x44" + (struct.pack("<Q", x) if isinstance(x, int) else struct.pack("<d", x))


def lget(i):
    return b"\x20" + u(i)


def lset(i):
    return b"\x21" + u(i)


def ltee(i):
    return b"\x22" + u(i)


def op(*names):
    """op('i32.add', 'drop', ...) plain opcodes; ints/bytes pass through."""
    out = bytearray()
    for n in names:
        if isinstance(n, bytes):
            out += n
        elif isinstance(n, int):
            out.append(n)
        else:
            out.append(O[n])
    return bytes(out)


def memarg(align, offset):
    return u(align) + u(offset)


# ---------------------------------------------------------------------------------------------
# node / V8 harness: one process judges every file and runs the requested calls
NODE_JS = r"""
const fs = require('fs'), path = require('path');
const dir = process.argv[2];
const man = JSON.parse(fs.readFileSync(path.join(dir, 'manifest.json')));
const dv = new DataView(new ArrayBuffer(8));
function dec(a) { const [t, v] = a;
  if (t === 'i32') return Number(v) | 0;
  if (t === 'i64') return BigInt(v);
  dv.setBigUint64(0, BigInt('0x' + v)); return dv.getFloat64(0); }
function enc(r) { if (r === undefined) return null;
  if (typeof r === 'bigint') return ['b', r.toString()];
  dv.setFloat64(0, r); return ['d', dv.getBigUint64(0).toString(16)]; }
const out = [];
for (const e of man) {
  const buf = fs.readFileSync(path.join(dir, e.file));
  const rec = {valid: WebAssembly.validate(buf)};
  if (!rec.valid) { try { new WebAssembly.Module(buf); } catch (err) { rec.error = String(err.message); } }
  else if (e.calls) {
    try {
      const inst = new WebAssembly.Instance(new WebAssembly.Module(buf), {});
      rec.results = [];
      for (const c of e.calls) {
        try { rec.results.push({v: enc(inst.exports[c[0]](...c[1].map(dec)))}); }
        catch (err) { rec.results.push({trap: String(err.message),
            kind: err instanceof WebAssembly.RuntimeError ? 'trap' : err instanceof RangeError ? 'range' : 'other'}); }
      }
    } catch (err) { rec.insterr = String(err.message); }
  }
  out.push(rec);
}
fs.writeFileSync(path.join(dir, 'out.json'), JSON.stringify(out));
"""


def find_node():
    for cand in ("node", "nodejs", "/usr/bin/nodejs", "/usr/bin/node"):
        p = shutil.which(cand)
        if p:
            return p
    return None


def enc_arg(t, v):
    if t in ("i32", "i64"):
        return [t, str(v)]
    if t == "f32":
        v = struct.unpack("<f", struct.pack("<f", v))[0] if not (math.isinf(v) or v != v) else v
    return [t, "%016x" % struct.unpack("<Q", struct.pack("<d", v))[0]]


def run_node(node, jobs, keep=False):
    """jobs: [(bytes, calls|None)], calls = [(export, [(type, value)])] -> list of node records."""
    d = tempfile.mkdtemp(prefix="wasmref_", dir="/tmp")
    try:
        man = []
        for i, (data, calls) in enumerate(jobs):
            fn = "m%05d.wasm" % i
            with open(os.path.join(d, fn), "wb") as f:
                f.write(data)
            man.append({"file": fn, "calls": None if calls is None else
                        [[e, [enc_arg(t, v) for t, v in args]] for e, args in calls]})
        with open(os.path.join(d, "manifest.json"), "w") as f:
            json.dump(man, f)
        with open(os.path.join(d, "run.js"), "w") as f:
            f.write(NODE_JS)
        p = subprocess.run([node, os.path.join(d, "run.js"), d], capture_output=True, text=True,
                           timeout=1200)
        if p.returncode != 0:
            raise RuntimeError("node failed: " + p.stderr[-2000:])
        with open(os.path.join(d, "out.json")) as f:
            return json.load(f)
    finally:
        if keep:
            print("kept", d)
        else:
            shutil.rmtree(d, ignore_errors=True)


def node_value(rec):
    """node result record -> ('trap', msg) | ('ok', None | int | float)"""
    if "trap" in rec:
        return ("trap", rec["kind"] + ":" + rec["trap"])
    v = rec["v"]
    if v is None:
        return ("ok", None)
    if v[0] == "b":
        return ("ok", int(v[1]))
    return ("ok", struct.unpack("<d", struct.pack("<Q", int(v[1], 16)))[0])


def same_value(t, mine, theirs):
    """mine: python result of type t; theirs: JS number (float) or int (BigInt)."""
    if t == "i64":
        return isinstance(theirs, int) and mine == theirs
    if t == "i32":
        return theirs == mine and float(theirs).is_integer()
    if mine != mine:
        return theirs != theirs
    return mine == theirs and math.copysign(1, mine) == math.copysign(1, theirs)


def run_mine(data, calls, max_steps=2_000_000):
    """-> (verdict tuple from validate_bytes, [('ok', [values]) | ('trap', reason)] | None)"""
    verdict = validate_bytes(data)
    if not verdict[0] or calls is None:
        return verdict, None
    m = decode(data)
    try:
        inst = Instance(m, max_steps=max_steps)
    except (Unsupported, LinkError, Trap) as e:
        return verdict, [("insterr", repr(e))]
    res = []
    for export, args in calls:
        try:
            res.append(("ok", inst.invoke(export, [v for _t, v in args])))
        except Trap as e:
            res.append(("trap", e.reason))
    return verdict, res


def result_types(data, export):
    m = decode(data)
    idx = [i for (n, k, i) in m.exports if n == export and k == "func"][0]
    return m.types[m.funcs[idx - len(m.imported("func"))]][1]
