"""Textbook LEB128 decoders (DWARF / WebAssembly definition), independent of the writer under test."""


class LebError(Exception):
    pass


def uleb(data, pos=0, max_bytes=10):
    result = 0
    shift = 0
    n = 0
    while True:
        if pos >= len(data):
            raise LebError("truncated")
        b = data[pos]
        pos += 1
        n += 1
        result |= (b & 0x7F) << shift
        shift += 7
        if not (b & 0x80):
            break
        if n >= max_bytes:
            raise LebError("too long")
    return result, n


def sleb(data, pos=0, max_bytes=10):
    result = 0
    shift = 0
    n = 0
    while True:
        if pos >= len(data):
            raise LebError("truncated")
        b = data[pos]
        pos += 1
        n += 1
        result |= (b & 0x7F) << shift
        shift += 7
        if not (b & 0x80):
            if b & 0x40:
                result -= 1 << shift
            break
        if n >= max_bytes:
            raise LebError("too long")
    return result, n
