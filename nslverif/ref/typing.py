"""C09 oracle: the operator typing table, transcribed from the property statement.

Types are the generator's own: 'float' | 'int' | 'uint' | ('vec', c, n) | ('mat', c, rows, cols).
spec(op, L, R) -> ('ok', result, operandL, operandR) | ('reject',) | ('undefined',)
For a one-column product the *shape* rows x 1 is what the statement fixes, so `result` is returned
as ('col', c, rows): both ('vec', c, rows) and ('mat', c, rows, 1) satisfy it (see matches()).
"""
from ..lang import FLOAT, INT, UINT, is_scalar, is_vec, is_mat, promote, CMP, LOGIC

SCALARS = (FLOAT, INT, UINT)
OPS = ("+", "-", "*", "/", "%", "<", "<=", ">", ">=", "==", "!=", "&&", "||")
OK, REJECT, UNDEFINED = "ok", "reject", "undefined"


def universe():
    """the full internal universe: component type x {scalar, vector 1-4, matrix 1-4 x 1-4} = 63 types"""
    out = []
    for c in SCALARS:
        out.append(c)
        for n in range(1, 5):
            out.append(("vec", c, n))
        for r in range(1, 5):
            for k in range(1, 5):
                out.append(("mat", c, r, k))
    return out


def spellable():
    out = list(SCALARS)
    for c in SCALARS:
        for n in (2, 3, 4):
            out.append(("vec", c, n))
    out.append(("mat", FLOAT, 3, 3))
    out.append(("mat", FLOAT, 4, 4))
    return out


def comp(t):
    return t if is_scalar(t) else t[1]


def with_comp(t, c):
    if is_scalar(t):
        return c
    return (t[0], c) + tuple(t[2:])


def rows_cols(t):
    if is_mat(t):
        return t[2], t[3]
    if is_vec(t):
        return t[2], 1
    return 1, 1


def spec(op, L, R):
    c = promote(comp(L), comp(R))
    if op in CMP:
        # the operands of a comparison are brought to their common type (the statement's "component type of the
        # result" cannot be meant literally for 1.5 < 2; for int/uint mixes both readings give int)
        if is_scalar(L) and is_scalar(R):
            return (OK, INT, c, c)
        if is_vec(L) and is_vec(R) and L[2] == R[2]:
            return (OK, ("vec", INT, L[2]), with_comp(L, c), with_comp(R, c))
        if is_mat(L) and is_mat(R):
            return (UNDEFINED,)
        return (REJECT,)
    if is_scalar(L) and is_scalar(R):
        return (OK, c, c, c)
    if op in ("+", "-", "%", "&&", "||"):
        if (is_vec(L) and is_vec(R) and L[2] == R[2]) or (is_mat(L) and is_mat(R) and L[2:] == R[2:]):
            t = with_comp(L, c)
            return (OK, t, t, t)
        return (REJECT,)
    if op == "/":
        if is_scalar(R):
            t = with_comp(L, c)
            return (OK, t, t, c)
        return (REJECT,)
    if op == "*":
        if is_scalar(R):
            t = with_comp(L, c)
            return (OK, t, t, c)
        if is_scalar(L):
            t = with_comp(R, c)
            return (OK, t, c, t)
        if is_mat(L) and (is_mat(R) or is_vec(R)):
            lr, lc = rows_cols(L)
            rr, rc = rows_cols(R)
            if lc != rr:
                return (REJECT,)
            res = ("col", c, lr) if rc == 1 else ("mat", c, lr, rc)
            return (OK, res, with_comp(L, c), with_comp(R, c))
        return (REJECT,)
    raise ValueError(op)


def matches(expected, got):
    """does the observed type `got` satisfy the expected type (which may be a ('col', c, n) shape)?"""
    if expected is None:
        return True
    if isinstance(expected, tuple) and expected[0] == "col":
        return got == ("vec", expected[1], expected[2]) or got == ("mat", expected[1], expected[2], 1)
    return expected == got


def tstr(t):
    if t is None:
        return "-"
    if isinstance(t, str):
        return t
    if t[0] == "vec":
        return "%s%d" % (t[1], t[2])
    if t[0] == "col":
        return "%s[%dx1]" % (t[1], t[2])
    return "%s%dx%d" % (t[1], t[2], t[3])
