"""RefSem: reference interpreter for NSL source semantics, evaluated on the generator's
own tree (lang.py).  Independent of nsl: no parser, typing, lowering or VM code is used.

Cases whose meaning the property statements do not pin down raise OutOfDomain and are
dropped by the checks (never judged): 32-bit overflow, division by zero, negative %,
out-of-range indices, non-finite / huge floats, float->int conversion of a value whose
floor and truncation differ.
"""
import math
import struct

from ..lang import (INT, FLOAT, UINT, VOID, IntLit, FloatLit, Var, Index, Field, Swizzle, Bin,
                    Assign, Affix, Call, Construct, Decl, ExprStmt, Block, If, For, While, Do,
                    Break, Continue, Return, is_scalar, is_vec, is_mat, is_arr, is_struct, comp,
                    promote, ARITH, CMP, LOGIC)

I32_MIN, I32_MAX = -(2 ** 31), 2 ** 31 - 1
FLOAT_LIMIT = float(2 ** 52)
SWZ = {"x": 0, "y": 1, "z": 2, "w": 3, "r": 0, "g": 1, "b": 2, "a": 3}


class OutOfDomain(Exception):
    pass


class RefTimeout(Exception):
    pass


class _BreakEx(Exception):
    pass


class _ContinueEx(Exception):
    pass


class _ReturnEx(Exception):
    def __init__(self, value):
        self.value = value


def f32(x):
    try:
        return struct.unpack("<f", struct.pack("<f", x))[0]
    except OverflowError:
        raise OutOfDomain("f32 overflow")


def default_value(ty, module):
    if ty == INT or ty == UINT:
        return 0
    if ty == FLOAT:
        return 0.0
    if is_vec(ty):
        z = 0.0 if ty[1] == FLOAT else 0
        return [z] * ty[2]
    if is_mat(ty):
        return [[0.0] * ty[3] for _ in range(ty[2])]
    if is_arr(ty):
        def build(dims):
            if not dims:
                return default_value(ty[1], module)
            return [build(dims[1:]) for _ in range(dims[0])]
        return build(ty[2])
    if is_struct(ty):
        return {n: default_value(t, module) for t, n in module.struct_fields(ty[1])}
    raise ValueError(ty)


def deep_copy(v):
    if isinstance(v, list):
        return [deep_copy(x) for x in v]
    if isinstance(v, dict):
        return {k: deep_copy(x) for k, x in v.items()}
    return v


class Interp:
    def __init__(self, module, globals_init=None, f32_mode=False, max_steps=400000, floor_mod=False, wide_literals=False):
        # floor_mod: `%` with a negative operand is evaluated like the VM does (floored) instead of being out of
        # domain.  Only C06 uses it, where this interpreter merely filters the numeric domain and the VM is the oracle.
        self.floor_mod = floor_mod
        # wide_literals: an int literal outside the signed 32-bit range is taken at face value (only C06 uses it, with the VM
        # as the oracle: what such a literal means to the backend is exactly what is being judged); results are still checked
        self.wide_literals = wide_literals
        self.m = module
        self.globals = {}
        for t, n in module.globals:
            self.globals[n] = default_value(t, module)
        if globals_init:
            for k, v in globals_init.items():
                self.globals[k] = deep_copy(v)
        self.f32_mode = f32_mode
        self.max_steps = max_steps
        self.steps = 0
        self.depth = 0
        self.float_ops = 0
        self.sum_ops = 0      # float sums formed by a matrix product (the only place where the order of additions is not written in the source)
        self.max_mag = 0.0
        self.calls = 0

    # ------------------------------------------------------------------ values
    def _chk_int(self, v):
        if v < I32_MIN or v > I32_MAX:
            raise OutOfDomain("int overflow")
        return v

    def _chk_float(self, v):
        if v != v or v in (math.inf, -math.inf):
            raise OutOfDomain("non-finite float")
        a = abs(v)
        if a > FLOAT_LIMIT:
            raise OutOfDomain("huge float")
        if a > self.max_mag:
            self.max_mag = a
        self.float_ops += 1
        if self.f32_mode:
            v = f32(v)
        return v

    def conv_scalar(self, v, src, dst):
        if src == dst:
            return v
        if dst == FLOAT:
            v = float(v)
            if self.f32_mode:
                v = f32(v)
            return v
        if dst == INT:
            if src == FLOAT:
                fl = math.floor(v)
                if fl != math.trunc(v):
                    raise OutOfDomain("float->int of negative non-integer")
                return self._chk_int(int(fl))
            return self._chk_int(v)  # uint -> int
        if dst == UINT:
            if src == FLOAT:
                fl = math.floor(v)
                if fl != math.trunc(v) or fl < 0:
                    raise OutOfDomain("float->uint")
                return int(fl)
            if v < 0:
                raise OutOfDomain("negative -> uint")
            return v
        raise ValueError((src, dst))

    def convert(self, v, src, dst):
        """implicit conversion of a primitive value to a type of the same shape"""
        if src == dst:
            return v
        if is_scalar(src) and is_scalar(dst):
            return self.conv_scalar(v, src, dst)
        if is_vec(src) and is_vec(dst) and src[2] == dst[2]:
            return [self.conv_scalar(x, src[1], dst[1]) for x in v]
        if is_mat(src) and is_mat(dst) and src[2:] == dst[2:]:
            return [[self.conv_scalar(x, src[1], dst[1]) for x in row] for row in v]
        raise OutOfDomain("no conversion %s -> %s" % (src, dst))

    # -------------------------------------------------------------- operators
    def scalar_op(self, op, t, a, b):
        """both operands already of scalar type t; returns value (type per typing rules)"""
        if op in CMP:
            if op == "<":
                r = a < b
            elif op == "<=":
                r = a <= b
            elif op == ">":
                r = a > b
            elif op == ">=":
                r = a >= b
            elif op == "==":
                r = a == b
            else:
                r = a != b
            return 1 if r else 0
        if op in LOGIC:
            r = (a != 0 and b != 0) if op == "&&" else (a != 0 or b != 0)
            one = 1.0 if t == FLOAT else 1
            zero = 0.0 if t == FLOAT else 0
            return one if r else zero
        if t == FLOAT:
            if op == "+":
                r = a + b
            elif op == "-":
                r = a - b
            elif op == "*":
                r = a * b
            elif op == "/":
                if b == 0:
                    raise OutOfDomain("float division by zero")
                r = a / b
            else:
                raise OutOfDomain("float %")
            return self._chk_float(r)
        # int / uint
        if op == "+":
            r = a + b
        elif op == "-":
            r = a - b
        elif op == "*":
            r = a * b
        elif op == "/":
            if b == 0:
                raise OutOfDomain("division by zero")
            q = abs(a) // abs(b)
            r = q if (a >= 0) == (b >= 0) else -q
        else:
            if b == 0:
                raise OutOfDomain("% by zero")
            if (b < 0 or a < 0) and not self.floor_mod:
                raise OutOfDomain("% outside a>=0, b>0")
            r = a % b
        if t == UINT:
            if r < 0 or r > 0xFFFFFFFF:
                raise OutOfDomain("uint out of range")
            return r
        return self._chk_int(r)

    def binop(self, op, lt, rt, a, b):
        if is_scalar(lt) and is_scalar(rt):
            t = promote(lt, rt)
            return self.scalar_op(op, t, self.conv_scalar(a, lt, t), self.conv_scalar(b, rt, t))
        if is_vec(lt) and is_vec(rt):
            if lt[2] != rt[2] or op in ("*", "/"):
                raise OutOfDomain("vector shapes")
            t = promote(lt[1], rt[1])
            return [self.scalar_op(op, t, self.conv_scalar(x, lt[1], t), self.conv_scalar(y, rt[1], t))
                    for x, y in zip(a, b)]
        if is_vec(lt) and is_scalar(rt) and op in ("*", "/"):
            t = promote(lt[1], rt)
            bb = self.conv_scalar(b, rt, t)
            return [self.scalar_op(op, t, self.conv_scalar(x, lt[1], t), bb) for x in a]
        if is_scalar(lt) and is_vec(rt) and op == "*":
            t = promote(lt, rt[1])
            aa = self.conv_scalar(a, lt, t)
            return [self.scalar_op(op, t, aa, self.conv_scalar(y, rt[1], t)) for y in b]
        if is_mat(lt) and is_mat(rt):
            t = promote(lt[1], rt[1])
            if op == "*":
                if lt[3] != rt[2]:
                    raise OutOfDomain("matrix shapes")
                res = []
                for i in range(lt[2]):
                    row = []
                    for j in range(rt[3]):
                        acc = 0.0 if t == FLOAT else 0
                        self.sum_ops += (t == FLOAT)
                        for k in range(lt[3]):
                            p = self.scalar_op("*", t, self.conv_scalar(a[i][k], lt[1], t),
                                               self.conv_scalar(b[k][j], rt[1], t))
                            acc = self.scalar_op("+", t, acc, p)
                        row.append(acc)
                    res.append(row)
                return res
            if lt[2:] != rt[2:] or op == "/":
                raise OutOfDomain("matrix shapes")
            return [[self.scalar_op(op, t, self.conv_scalar(x, lt[1], t), self.conv_scalar(y, rt[1], t))
                     for x, y in zip(ra, rb)] for ra, rb in zip(a, b)]
        if is_mat(lt) and is_scalar(rt) and op in ("*", "/"):
            t = promote(lt[1], rt)
            bb = self.conv_scalar(b, rt, t)
            return [[self.scalar_op(op, t, self.conv_scalar(x, lt[1], t), bb) for x in row] for row in a]
        if is_scalar(lt) and is_mat(rt) and op == "*":
            t = promote(lt, rt[1])
            aa = self.conv_scalar(a, lt, t)
            return [[self.scalar_op(op, t, aa, self.conv_scalar(y, rt[1], t)) for y in row] for row in b]
        if is_mat(lt) and is_vec(rt) and op == "*":
            if lt[3] != rt[2]:
                raise OutOfDomain("matrix-vector shapes")
            t = promote(lt[1], rt[1])
            res = []
            for i in range(lt[2]):
                acc = 0.0 if t == FLOAT else 0
                self.sum_ops += (t == FLOAT)
                for k in range(lt[3]):
                    p = self.scalar_op("*", t, self.conv_scalar(a[i][k], lt[1], t),
                                       self.conv_scalar(b[k], rt[1], t))
                    acc = self.scalar_op("+", t, acc, p)
                res.append(acc)
            return res
        raise OutOfDomain("operand shapes %s %s %s" % (op, lt, rt))

    # ------------------------------------------------------------ expressions
    def tick(self):
        self.steps += 1
        if self.steps > self.max_steps:
            raise RefTimeout()

    def lookup(self, name, frame):
        if name in frame:
            return frame
        if name in self.globals:
            return self.globals
        raise KeyError("generator bug: unknown variable " + name)

    def index_of(self, e, frame, size):
        i = self.ev(e.idx, frame)
        if not is_scalar(e.idx.ty) or e.idx.ty == FLOAT:
            raise OutOfDomain("non-integer index")
        if i < 0 or i >= size:
            raise OutOfDomain("index out of range")
        return i

    def ev(self, e, frame):
        self.tick()
        k = type(e)
        if k is IntLit:
            # a literal is an intermediate value like any other: outside the signed 32-bit range the
            # statements do not say what it means
            return e.value if self.wide_literals else self._chk_int(e.value)
        if k is FloatLit:
            return f32(e.value) if self.f32_mode else e.value
        if k is Var:
            v = self.lookup(e.name, frame)[e.name]
            if isinstance(v, list) and (is_vec(e.ty) or is_mat(e.ty)):
                return deep_copy(v)
            return v
        if k is Bin:
            a = self.ev(e.l, frame)
            b = self.ev(e.r, frame)
            return self.binop(e.op, e.l.ty, e.r.ty, a, b)
        if k is Index:
            base = self.ev_ref(e.base, frame)
            i = self.index_of(e, frame, len(base))
            v = base[i]
            return deep_copy(v) if isinstance(v, list) and not is_arr(e.ty) else v
        if k is Field:
            base = self.ev_ref(e.base, frame)
            v = base[e.name]
            return deep_copy(v) if isinstance(v, list) and not is_arr(e.ty) else v
        if k is Swizzle:
            base = self.ev_ref(e.base, frame)
            if not isinstance(base, list):
                base = [base]
            idx = [SWZ[c] for c in e.mask]
            for i in idx:
                if i >= len(base):
                    raise OutOfDomain("swizzle beyond vector")
            return base[idx[0]] if len(idx) == 1 else [base[i] for i in idx]
        if k is Assign:
            if e.op == "=":
                v = self.ev(e.value, frame)
                v = self.convert(v, e.value.ty, e.target.ty) if e.value.ty != e.target.ty else v
            else:
                old = self.ev(e.target, frame)
                rhs = self.ev(e.value, frame)
                v = self.binop(e.op[0], e.target.ty, e.value.ty, old, rhs)
            self.store(e.target, v, frame)
            return deep_copy(v)
        if k is Affix:
            scope = self.lookup(e.var.name, frame)
            old = scope[e.var.name]
            one = 1.0 if e.var.ty == FLOAT else 1
            new = self.scalar_op("+" if e.op == "++" else "-", e.var.ty, old, one)
            scope[e.var.name] = new
            return new if e.prefix else old
        if k is Call:
            args = [self.ev(a, frame) for a in e.args]
            args = [self.convert(v, a.ty, p[0]) if is_scalar(p[0]) or is_vec(p[0]) or is_mat(p[0]) else v
                    for v, a, p in zip(args, e.args, e.fn.params)]
            return self.invoke(e.fn, args)
        if k is Construct:
            vals = [(self.ev(a, frame), a.ty) for a in e.args]
            if is_vec(e.ty):
                flat = []
                for v, t in vals:
                    if isinstance(v, list):
                        flat.extend(self.conv_scalar(x, t[1], e.ty[1]) for x in v)
                    else:
                        flat.append(self.conv_scalar(v, t, e.ty[1]))
                if len(flat) != e.ty[2]:
                    raise OutOfDomain("constructor arity")
                return flat
            if is_mat(e.ty):
                rows = []
                for v, t in vals:
                    if not isinstance(v, list):
                        raise OutOfDomain("matrix constructor needs rows")
                    rows.append([self.conv_scalar(x, t[1], e.ty[1]) for x in v])
                return rows
            raise OutOfDomain("constructor type")
        raise TypeError(e)

    def ev_ref(self, e, frame):
        """evaluate an access-chain base *without* copying (containers are navigated in place)"""
        k = type(e)
        if k is Var:
            self.tick()
            return self.lookup(e.name, frame)[e.name]
        if k is Index:
            self.tick()
            base = self.ev_ref(e.base, frame)
            return base[self.index_of(e, frame, len(base))]
        if k is Field:
            self.tick()
            return self.ev_ref(e.base, frame)[e.name]
        return self.ev(e, frame)

    def store(self, target, v, frame):
        k = type(target)
        if k is Var:
            self.lookup(target.name, frame)[target.name] = deep_copy(v)
        elif k is Index:
            base = self.ev_ref(target.base, frame)
            base[self.index_of(target, frame, len(base))] = deep_copy(v)
        elif k is Field:
            self.ev_ref(target.base, frame)[target.name] = deep_copy(v)
        elif k is Swizzle:
            base = self.ev_ref(target.base, frame)
            idx = [SWZ[c] for c in target.mask]
            if not isinstance(base, list):
                raise OutOfDomain("swizzle write on scalar")
            if len(set(idx)) != len(idx):
                raise OutOfDomain("repeating write mask")
            vs = v if isinstance(v, list) else [v]
            if len(vs) != len(idx):
                raise OutOfDomain("swizzle write arity")
            for i, x in zip(idx, vs):
                if i >= len(base):
                    raise OutOfDomain("swizzle beyond vector")
                base[i] = x
        else:
            raise TypeError(target)

    # ------------------------------------------------------------- statements
    def truth(self, v):
        if isinstance(v, list):
            raise OutOfDomain("vector condition")
        return v != 0

    def ex(self, s, frame):
        self.tick()
        k = type(s)
        if k is ExprStmt:
            self.ev(s.e, frame)
        elif k is Decl:
            if s.init is None:
                frame[s.name] = default_value(s.ty, self.m)
            else:
                v = self.ev(s.init, frame)
                if s.init.ty != s.ty:
                    v = self.convert(v, s.init.ty, s.ty)
                frame[s.name] = deep_copy(v)
        elif k is Block:
            for x in s.stmts:
                self.ex(x, frame)
        elif k is If:
            if self.truth(self.ev(s.c, frame)):
                self.ex(s.then, frame)
            elif s.els is not None:
                self.ex(s.els, frame)
        elif k is For:
            if s.init is not None:
                self.ex(s.init, frame)
            while True:
                if s.cond is not None and not self.truth(self.ev(s.cond, frame)):
                    break
                try:
                    self.ex(s.body, frame)
                except _BreakEx:
                    break
                except _ContinueEx:
                    pass
                if s.nxt is not None:
                    self.ev(s.nxt, frame)
        elif k is While:
            while self.truth(self.ev(s.c, frame)):
                try:
                    self.ex(s.body, frame)
                except _BreakEx:
                    break
                except _ContinueEx:
                    pass
        elif k is Do:
            while True:
                try:
                    self.ex(s.body, frame)
                except _BreakEx:
                    break
                except _ContinueEx:
                    pass
                if not self.truth(self.ev(s.c, frame)):
                    break
        elif k is Break:
            raise _BreakEx()
        elif k is Continue:
            raise _ContinueEx()
        elif k is Return:
            raise _ReturnEx(self.ev(s.e, frame) if s.e is not None else None)
        else:
            raise TypeError(s)

    def invoke(self, fn, args):
        self.calls += 1
        self.depth += 1
        if self.depth > 60:
            raise OutOfDomain("recursion depth")
        frame = {}
        for (t, n), v in zip(fn.params, args):
            if n is None:       # unnamed parameter: takes its position, cannot be referred to
                continue
            frame[n] = deep_copy(v) if (is_vec(t) or is_mat(t) or is_scalar(t)) else v
        try:
            try:
                self.ex(fn.body, frame)
                rv = None
            except _ReturnEx as r:
                rv = r.value
        finally:
            self.depth -= 1
        if rv is not None and fn.ret != VOID and self._ret_ty(fn) is not None:
            pass
        return rv

    def _ret_ty(self, fn):
        return fn.ret

    def call(self, fname, args_by_name):
        fn = self.m.func(fname)
        args = [args_by_name[n] for _, n in fn.params]
        return self.invoke(fn, [deep_copy(a) for a in args])


def values_equal(a, b, tol=1e-9):
    """Deep comparison: ints exact (an int-valued float equals the int), floats within tol."""
    if isinstance(a, list) or isinstance(b, list):
        if not (isinstance(a, list) and isinstance(b, list)) or len(a) != len(b):
            return False
        return all(values_equal(x, y, tol) for x, y in zip(a, b))
    if isinstance(a, dict) or isinstance(b, dict):
        if not (isinstance(a, dict) and isinstance(b, dict)) or set(a) != set(b):
            return False
        return all(values_equal(a[k], b[k], tol) for k in a)
    if a is None or b is None:
        return a is None and b is None
    if isinstance(a, bool) or isinstance(b, bool):
        a, b = int(a), int(b)
    if not isinstance(a, (int, float)) or not isinstance(b, (int, float)):
        return False
    if isinstance(a, int) and isinstance(b, int):
        return a == b
    if a == b:
        return True
    try:
        return abs(a - b) <= tol * max(1.0, abs(a), abs(b))
    except (OverflowError, TypeError):
        return False
