"""WebAssembly 1.0 (MVP) interpreter over wasm_decode.Module, written from the spec (section 4).
Independent reference: stdlib only.  The module is assumed to have passed wasm_validate.validate.

    inst = Instance(module, max_steps=None, max_depth=200, max_pages=2048)
    inst.invoke("name", [args]) -> [results]      i32/i64 signed ints, f32 (single-rounded)/f64 floats
Raises Trap(reason), StepLimit, Unsupported (imports), LinkError (segment does not fit).

Values on the operand stack: i32/i64 as unsigned Python ints, f32/f64 as Python floats (f32 values
are always exactly representable in single precision).  NaN payloads/signs are not tracked.
"""
import math
import struct

M32, M64 = 0xFFFFFFFF, 0xFFFFFFFFFFFFFFFF
PAGE = 65536
INF, NAN = float("inf"), float("nan")
_pack, _unpack = struct.pack, struct.unpack


class Trap(Exception):
    def __init__(self, reason):
        Exception.__init__(self, reason)
        self.reason = reason


class StepLimit(Exception):
    pass


class Unsupported(Exception):
    pass


class LinkError(Exception):
    pass


# ---- numeric helpers ------------------------------------------------------------------------------
def f32round(x):
    try:
        return _unpack("<f", _pack("<f", x))[0]
    except OverflowError:
        return INF if x > 0 else -INF


def _s32(a):
    return a - 0x100000000 if a & 0x80000000 else a


def _s64(a):
    return a - 0x10000000000000000 if a & 0x8000000000000000 else a


def _bits_f32(b):
    return _unpack("<f", _pack("<I", b & M32))[0]


def _bits_f64(b):
    return _unpack("<d", _pack("<Q", b & M64))[0]


def _f32_bits(x):
    return _unpack("<I", _pack("<f", x))[0]


def _f64_bits(x):
    return _unpack("<Q", _pack("<d", x))[0]


def _int_ops(bits):
    mask, sign = (1 << bits) - 1, 1 << (bits - 1)
    sh = bits - 1

    def s(a):
        return a - (1 << bits) if a & sign else a

    def div_s(a, b):
        a, b = s(a), s(b)
        if b == 0:
            raise Trap("integer divide by zero")
        if a == -sign and b == -1:
            raise Trap("integer overflow")
        q = abs(a) // abs(b)
        return (-q if (a < 0) != (b < 0) else q) & mask

    def div_u(a, b):
        if b == 0:
            raise Trap("integer divide by zero")
        return a // b

    def rem_s(a, b):
        a, b = s(a), s(b)
        if b == 0:
            raise Trap("integer divide by zero")
        r = abs(a) % abs(b)
        return (-r if a < 0 else r) & mask

    def rem_u(a, b):
        if b == 0:
            raise Trap("integer divide by zero")
        return a % b

    def rotl(a, b):
        k = b & sh
        return ((a << k) | (a >> (bits - k))) & mask

    def rotr(a, b):
        k = b & sh
        return ((a >> k) | (a << (bits - k))) & mask

    un = [lambda a: bits - a.bit_length(),                                   # clz
          lambda a: bits if a == 0 else (a & -a).bit_length() - 1,           # ctz
          lambda a: bin(a).count("1")]                                       # popcnt
    cmp_ = [lambda a, b: int(a == b), lambda a, b: int(a != b),
            lambda a, b: int(s(a) < s(b)), lambda a, b: int(a < b),
            lambda a, b: int(s(a) > s(b)), lambda a, b: int(a > b),
            lambda a, b: int(s(a) <= s(b)), lambda a, b: int(a <= b),
            lambda a, b: int(s(a) >= s(b)), lambda a, b: int(a >= b)]
    bin_ = [lambda a, b: (a + b) & mask, lambda a, b: (a - b) & mask, lambda a, b: (a * b) & mask,
            div_s, div_u, rem_s, rem_u,
            lambda a, b: a & b, lambda a, b: a | b, lambda a, b: a ^ b,
            lambda a, b: (a << (b & sh)) & mask, lambda a, b: (s(a) >> (b & sh)) & mask,
            lambda a, b: a >> (b & sh), rotl, rotr]
    return un, cmp_, bin_


def _fmin(a, b):
    if a != a or b != b:
        return NAN
    if a == b:                      # covers +0/-0: the negative one wins
        return a if math.copysign(1.0, a) < 0 else b
    return a if a < b else b


def _fmax(a, b):
    if a != a or b != b:
        return NAN
    if a == b:
        return a if math.copysign(1.0, a) > 0 else b
    return a if a > b else b


def _fdiv(a, b):
    try:
        return a / b
    except ZeroDivisionError:
        if a != a or a == 0:
            return NAN
        return math.copysign(INF, a) * math.copysign(1.0, b)


def _fsqrt(a):
    try:
        return math.sqrt(a)
    except ValueError:
        return NAN


def _integral(fn):
    def g(a):
        if a != a or a in (INF, -INF) or abs(a) >= 4503599627370496.0:
            return a
        return math.copysign(float(fn(a)), a)
    return g


_F_UN = [abs, lambda a: -a, _integral(math.ceil), _integral(math.floor), _integral(math.trunc),
         _integral(round), _fsqrt]
_F_BIN = [lambda a, b: a + b, lambda a, b: a - b, lambda a, b: a * b, _fdiv, _fmin, _fmax,
          math.copysign]
_F_CMP = [lambda a, b: int(a == b), lambda a, b: int(a != b), lambda a, b: int(a < b),
          lambda a, b: int(a > b), lambda a, b: int(a <= b), lambda a, b: int(a >= b)]


def _trunc(lo, hi, mask):
    def g(a):
        if a != a:
            raise Trap("invalid conversion to integer")
        if a in (INF, -INF):
            raise Trap("integer overflow")
        t = int(a)
        if t < lo or t > hi:
            raise Trap("integer overflow")
        return t & mask
    return g


def _int_to_f32(x):
    """Correctly rounded (nearest, ties to even) integer -> single, without double rounding."""
    n = abs(x)
    if n >= 1 << 53:
        shift = n.bit_length() - 24
        q, rem, half = n >> shift, n & ((1 << shift) - 1), 1 << (shift - 1)
        if rem > half or (rem == half and q & 1):
            q += 1
        n = q << shift
    return f32round(float(-n if x < 0 else n))


def _rounded(fn):                      # f32 result: round to single after the double computation
    return lambda *a: f32round(fn(*a))


UN, BIN = {}, {}
for _base, _bits in ((0x45, 32), (0x50, 64)):
    _un, _cmp, _bin = _int_ops(_bits)
    UN[_base] = lambda a: int(a == 0)
    for _i, _f in enumerate(_cmp):
        BIN[_base + 1 + _i] = _f
    _ubase, _bbase = (0x67, 0x6A) if _bits == 32 else (0x79, 0x7C)
    for _i, _f in enumerate(_un):
        UN[_ubase + _i] = _f
    for _i, _f in enumerate(_bin):
        BIN[_bbase + _i] = _f
for _i, _f in enumerate(_F_CMP):
    BIN[0x5B + _i] = BIN[0x61 + _i] = _f
for _i, _f in enumerate(_F_UN):
    UN[0x8B + _i] = _rounded(_f) if _i == 6 else _f
    UN[0x99 + _i] = _f
for _i, _f in enumerate(_F_BIN):
    BIN[0x92 + _i] = _rounded(_f) if _i < 4 else _f
    BIN[0xA0 + _i] = _f
UN.update({
    0xA7: lambda a: a & M32,
    0xA8: _trunc(-2 ** 31, 2 ** 31 - 1, M32), 0xA9: _trunc(0, 2 ** 32 - 1, M32),
    0xAA: _trunc(-2 ** 31, 2 ** 31 - 1, M32), 0xAB: _trunc(0, 2 ** 32 - 1, M32),
    0xAC: lambda a: _s32(a) & M64, 0xAD: lambda a: a,
    0xAE: _trunc(-2 ** 63, 2 ** 63 - 1, M64), 0xAF: _trunc(0, 2 ** 64 - 1, M64),
    0xB0: _trunc(-2 ** 63, 2 ** 63 - 1, M64), 0xB1: _trunc(0, 2 ** 64 - 1, M64),
    0xB2: lambda a: _int_to_f32(_s32(a)), 0xB3: _int_to_f32,
    0xB4: lambda a: _int_to_f32(_s64(a)), 0xB5: _int_to_f32,
    0xB6: f32round,
    0xB7: lambda a: float(_s32(a)), 0xB8: float, 0xB9: lambda a: float(_s64(a)), 0xBA: float,
    0xBB: lambda a: a,
    0xBC: _f32_bits, 0xBD: _f64_bits, 0xBE: _bits_f32, 0xBF: _bits_f64,
})
assert sorted(list(UN) + list(BIN)) == list(range(0x45, 0xC0))

# loads: opcode -> (width, signed?, result mask or 'f'/'d');  stores: opcode -> (width, kind)
LOADS = {0x28: (4, 0, M32), 0x29: (8, 0, M64), 0x2A: (4, 0, "<f"), 0x2B: (8, 0, "<d"),
         0x2C: (1, 1, M32), 0x2D: (1, 0, M32), 0x2E: (2, 1, M32), 0x2F: (2, 0, M32),
         0x30: (1, 1, M64), 0x31: (1, 0, M64), 0x32: (2, 1, M64), 0x33: (2, 0, M64),
         0x34: (4, 1, M64), 0x35: (4, 0, M64)}
STORES = {0x36: (4, None), 0x37: (8, None), 0x38: (4, "<f"), 0x39: (8, "<d"), 0x3A: (1, None),
          0x3B: (2, None), 0x3C: (1, None), 0x3D: (2, None), 0x3E: (4, None)}

# compiled instruction kinds
(K_LGET, K_CONST, K_BIN, K_LSET, K_UN, K_LTEE, K_BRIF, K_BR, K_END, K_BLOCK, K_LOOP, K_IF, K_ELSE,
 K_CALL, K_LOAD, K_STORE, K_GGET, K_GSET, K_DROP, K_SELECT, K_RETURN, K_BRTABLE, K_CALLIND,
 K_MEMSIZE, K_MEMGROW, K_UNREACHABLE, K_NOP) = range(27)


def _compile(body):
    """Flat decoded body -> list of (kind, a, b, c) with branch targets resolved."""
    code, opens = [None] * len(body), []
    for pc, (op, imm) in enumerate(body):
        if op in BIN:
            ins = (K_BIN, BIN[op], 0, 0)
        elif op in UN:
            ins = (K_UN, UN[op], 0, 0)
        elif op == 0x20:
            ins = (K_LGET, imm[0], 0, 0)
        elif op == 0x21:
            ins = (K_LSET, imm[0], 0, 0)
        elif op == 0x22:
            ins = (K_LTEE, imm[0], 0, 0)
        elif op == 0x41:
            ins = (K_CONST, imm[0] & M32, 0, 0)
        elif op == 0x42:
            ins = (K_CONST, imm[0] & M64, 0, 0)
        elif op == 0x43:
            ins = (K_CONST, _bits_f32(imm[0]), 0, 0)
        elif op == 0x44:
            ins = (K_CONST, _bits_f64(imm[0]), 0, 0)
        elif op in (0x02, 0x03, 0x04):
            opens.append([pc, op, 0 if imm[0] is None else 1, None])
            ins = None                                   # patched when the matching end is seen
        elif op == 0x05:
            opens[-1][3] = pc
            ins = None
        elif op == 0x0B:
            ins = (K_END, 0, 0, 0)
            if opens:
                start, bop, arity, else_pc = opens.pop()
                if bop == 0x02:
                    code[start] = (K_BLOCK, pc + 1, arity, 0)
                elif bop == 0x03:
                    code[start] = (K_LOOP, start, 0, 0)
                else:       # false branch: to else body, or straight to this end (which pops the label)
                    code[start] = (K_IF, pc + 1, arity, pc if else_pc is None else else_pc + 1)
                    if else_pc is not None:
                        code[else_pc] = (K_ELSE, pc, 0, 0)
        elif op == 0x0C:
            ins = (K_BR, imm[0], 0, 0)
        elif op == 0x0D:
            ins = (K_BRIF, imm[0], 0, 0)
        elif op == 0x0E:
            ins = (K_BRTABLE, imm[0], imm[1], 0)
        elif op == 0x0F:
            ins = (K_RETURN, 0, 0, 0)
        elif op == 0x10:
            ins = (K_CALL, imm[0], 0, 0)
        elif op == 0x11:
            ins = (K_CALLIND, imm[0], 0, 0)
        elif op == 0x1A:
            ins = (K_DROP, 0, 0, 0)
        elif op == 0x1B:
            ins = (K_SELECT, 0, 0, 0)
        elif op == 0x23:
            ins = (K_GGET, imm[0], 0, 0)
        elif op == 0x24:
            ins = (K_GSET, imm[0], 0, 0)
        elif op in LOADS:
            ins = (K_LOAD, imm[1]) + LOADS[op][0:1] + (LOADS[op][1:],)
        elif op in STORES:
            ins = (K_STORE, imm[1]) + STORES[op]
        elif op == 0x3F:
            ins = (K_MEMSIZE, 0, 0, 0)
        elif op == 0x40:
            ins = (K_MEMGROW, 0, 0, 0)
        elif op == 0x00:
            ins = (K_UNREACHABLE, 0, 0, 0)
        elif op == 0x01:
            ins = (K_NOP, 0, 0, 0)
        else:
            raise Unsupported("opcode 0x%02x" % op)
        if ins is not None:
            code[pc] = ins
    return code


_ZERO = {"i32": 0, "i64": 0, "f32": 0.0, "f64": 0.0}


class Instance:
    def __init__(self, module, max_steps=None, max_depth=200, max_pages=2048):
        if module.imports:
            raise Unsupported("module has imports")
        m = self.module = module
        self.max_steps, self.max_depth, self.max_pages = max_steps, max_depth, max_pages
        self.steps = self.depth = 0
        self.types = m.types
        self.ftypes = [m.types[t] for t in m.funcs]
        self.code = [_compile(body) for (_l, body) in m.codes]
        self.local_init = [[_ZERO[t] for t in locs] for (locs, _b) in m.codes]
        self.gtypes = [t for (t, _m, _e) in m.globals]
        self.globals = [self._const(e) for (_t, _m, e) in m.globals]
        self.table = [None] * m.tables[0][0] if m.tables else None
        self.mem_max = None
        self.mem = None
        if m.mems:
            mn, mx = m.mems[0]
            if mn > max_pages:
                raise Unsupported("initial memory of %d pages exceeds max_pages=%d" % (mn, max_pages))
            self.mem, self.mem_max = bytearray(mn * PAGE), mx
        segs = [(self._const(off), funcs) for (_t, off, funcs) in m.elems]
        dsegs = [(self._const(off), data) for (_m, off, data) in m.datas]
        for off, funcs in segs:             # 1.0: all bounds are checked before anything is written
            if off + len(funcs) > len(self.table):
                raise LinkError("elements segment does not fit")
        for off, data in dsegs:
            if off + len(data) > len(self.mem):
                raise LinkError("data segment does not fit")
        for off, funcs in segs:
            self.table[off:off + len(funcs)] = funcs
        for off, data in dsegs:
            self.mem[off:off + len(data)] = data
        self.exports = {nm: (kind, idx) for (nm, kind, idx) in m.exports}
        if m.start is not None:
            self._call(m.start, [])

    def _const(self, expr):
        op, imm = expr[0]
        return {0x41: lambda: imm[0] & M32, 0x42: lambda: imm[0] & M64,
                0x43: lambda: _bits_f32(imm[0]), 0x44: lambda: _bits_f64(imm[0])}[op]()

    @staticmethod
    def _out(t, v):
        return _s32(v) if t == "i32" else _s64(v) if t == "i64" else v

    @staticmethod
    def _in(t, v):
        if t == "i32":
            return int(v) & M32
        if t == "i64":
            return int(v) & M64
        return f32round(float(v)) if t == "f32" else float(v)

    def invoke(self, name, args=()):
        kind, idx = self.exports[name]
        if kind != "func":
            raise KeyError("export %r is a %s" % (name, kind))
        params, results = self.ftypes[idx]
        if len(args) != len(params):
            raise TypeError("%s expects %d arguments, got %d" % (name, len(params), len(args)))
        self.depth = self.steps = 0         # depth and step budget are per invocation
        out = self._call(idx, [self._in(t, v) for t, v in zip(params, args)])
        return [self._out(t, v) for t, v in zip(results, out)]

    def get_global(self, name):
        kind, idx = self.exports[name]
        return self._out(self.gtypes[idx], self.globals[idx])

    def _call(self, fidx, args):
        if self.depth >= self.max_depth:
            raise Trap("call stack exhausted")
        self.depth += 1
        code = self.code[fidx]
        nres = len(self.ftypes[fidx][1])
        locs = args + self.local_init[fidx]
        stack, n = [], len(code)
        push, pop = stack.append, stack.pop
        labels = [(n, 0, nres)]             # (continuation pc, operand height, arity)
        pc, steps, limit = 0, self.steps, self.max_steps
        glob = self.globals
        while pc < n:
            k, a, b, c = code[pc]
            pc += 1
            steps += 1
            if limit is not None and steps > limit:
                self.steps = steps
                raise StepLimit("more than %d steps" % limit)
            if k == K_LGET:
                push(locs[a])
            elif k == K_CONST:
                push(a)
            elif k == K_BIN:
                y = pop()
                stack[-1] = a(stack[-1], y)
            elif k == K_LSET:
                locs[a] = pop()
            elif k == K_UN:
                stack[-1] = a(stack[-1])
            elif k == K_LTEE:
                locs[a] = stack[-1]
            elif k == K_END:
                labels.pop()
            elif k == K_BLOCK:
                labels.append((a, len(stack), b))
            elif k == K_LOOP:
                labels.append((a, len(stack), 0))
            elif k == K_IF:
                cond = pop()
                labels.append((a, len(stack), b))
                if not cond:
                    pc = c
            elif k == K_ELSE:
                pc = a
            elif k in (K_BR, K_BRIF, K_BRTABLE, K_RETURN):
                if k == K_BRIF:
                    if not pop():
                        continue
                elif k == K_BRTABLE:
                    i = pop()
                    a = a[i] if i < len(a) else b
                elif k == K_RETURN:
                    a = len(labels) - 1
                pc, height, arity = labels[-1 - a]
                del labels[len(labels) - 1 - a:]
                if arity:
                    stack[height:] = stack[len(stack) - arity:]
                else:
                    del stack[height:]
            elif k == K_CALL or k == K_CALLIND:
                if k == K_CALLIND:
                    i = pop()
                    if i >= len(self.table):
                        raise Trap("undefined element")
                    f = self.table[i]
                    if f is None:
                        raise Trap("uninitialized element")
                    if self.ftypes[f] != self.types[a]:
                        raise Trap("indirect call type mismatch")
                    a = f
                np_ = len(self.ftypes[a][0])
                cargs = stack[len(stack) - np_:] if np_ else []
                if np_:
                    del stack[len(stack) - np_:]
                self.steps = steps
                stack.extend(self._call(a, cargs))
                steps = self.steps
            elif k == K_LOAD:
                ea = pop() + a
                mem = self.mem
                if ea + b > len(mem):
                    raise Trap("out of bounds memory access")
                signed, out = c
                if out.__class__ is str:
                    v = _unpack(out, mem[ea:ea + b])[0]
                else:
                    v = int.from_bytes(mem[ea:ea + b], "little", signed=bool(signed)) & out
                push(v)
            elif k == K_STORE:
                v = pop()
                ea = pop() + a
                mem = self.mem
                if ea + b > len(mem):
                    raise Trap("out of bounds memory access")
                if c is None:
                    mem[ea:ea + b] = (v & ((1 << (8 * b)) - 1)).to_bytes(b, "little")
                else:
                    mem[ea:ea + b] = _pack(c, v)
            elif k == K_GGET:
                push(glob[a])
            elif k == K_GSET:
                glob[a] = pop()
            elif k == K_DROP:
                pop()
            elif k == K_SELECT:
                cond = pop()
                y = pop()
                if not cond:
                    stack[-1] = y
            elif k == K_MEMSIZE:
                push(len(self.mem) // PAGE)
            elif k == K_MEMGROW:
                delta = pop()
                cur = len(self.mem) // PAGE
                cap = min(self.max_pages, 65536 if self.mem_max is None else self.mem_max)
                if cur + delta > cap:
                    push(M32)
                else:
                    self.mem.extend(bytes(delta * PAGE))
                    push(cur)
            elif k == K_UNREACHABLE:
                raise Trap("unreachable")
            # K_NOP: nothing
        self.steps = steps
        self.depth -= 1
        return stack[len(stack) - nres:] if nres else []
