"""C10 oracle: overload resolution as the property states it (order-independent by construction).

resolve(candidates, args) -> index of the chosen candidate | None (rejected)
  candidates: list of parameter-type tuples; args: tuple of argument types (generator types).
"""
from ..lang import is_scalar, is_vec, is_mat


def convertible(arg, param):
    if is_scalar(arg) and is_scalar(param):
        return True
    if is_vec(arg) and is_vec(param):
        return arg[2] == param[2]
    return arg == param          # identical aggregates / matrices


def score(params, args):
    """number of conversions, or None when not viable"""
    if len(params) != len(args):
        return None
    n = 0
    for a, p in zip(args, params):
        if not convertible(a, p):
            return None
        if a != p:
            n += 1
    return n


def resolve(candidates, args):
    scored = [(score(c, args), i) for i, c in enumerate(candidates)]
    viable = [(s, i) for s, i in scored if s is not None]
    if not viable:
        return None
    best = min(s for s, _ in viable)
    winners = [i for s, i in viable if s == best]
    if len(winners) != 1:
        return None
    return winners[0]


def in_universe(t):
    return is_scalar(t) or is_vec(t)
