"""WebAssembly 1.0 (MVP) validator over wasm_decode.Module, written from the spec (section 3 and
the validation algorithm of the appendix: operand stack + control stack with polymorphic
handling of unreachable code).  Independent reference: stdlib only.

    validate(module) -> None                 raises ValidationError(rule, detail)
    validate_bytes(data) -> (ok, stage, rule, detail)     stage: 'decode' | 'validate' | None
"""
from .wasm_decode import decode, DecodeError

I32, I64, F32, F64 = "i32", "i64", "f32", "f64"
MAX_PAGES = 65536


class ValidationError(Exception):
    def __init__(self, rule, detail):
        Exception.__init__(self, "%s: %s" % (rule, detail))
        self.rule, self.detail = rule, detail
        self.func = self.instr = None      # defined-function index / instruction index, if in a body


# ---- opcode tables ------------------------------------------------------------------------------
NUMERIC = {}                # opcode -> (operand types in pop order (reversed), result type)


def _put(start, count, params, result):
    for op in range(start, start + count):
        NUMERIC[op] = (tuple(reversed(params)), result)


_put(0x45, 1, (I32,), I32); _put(0x46, 10, (I32, I32), I32)          # i32.eqz, i32 comparisons
_put(0x50, 1, (I64,), I32); _put(0x51, 10, (I64, I64), I32)          # i64.eqz, i64 comparisons
_put(0x5B, 6, (F32, F32), I32); _put(0x61, 6, (F64, F64), I32)       # f32 / f64 comparisons
_put(0x67, 3, (I32,), I32); _put(0x6A, 15, (I32, I32), I32)          # i32 clz ctz popcnt; add..rotr
_put(0x79, 3, (I64,), I64); _put(0x7C, 15, (I64, I64), I64)
_put(0x8B, 7, (F32,), F32); _put(0x92, 7, (F32, F32), F32)           # abs..sqrt; add..copysign
_put(0x99, 7, (F64,), F64); _put(0xA0, 7, (F64, F64), F64)
for _op, _a, _r in ((0xA7, I64, I32), (0xA8, F32, I32), (0xA9, F32, I32), (0xAA, F64, I32),
                    (0xAB, F64, I32), (0xAC, I32, I64), (0xAD, I32, I64), (0xAE, F32, I64),
                    (0xAF, F32, I64), (0xB0, F64, I64), (0xB1, F64, I64), (0xB2, I32, F32),
                    (0xB3, I32, F32), (0xB4, I64, F32), (0xB5, I64, F32), (0xB6, F64, F32),
                    (0xB7, I32, F64), (0xB8, I32, F64), (0xB9, I64, F64), (0xBA, I64, F64),
                    (0xBB, F32, F64), (0xBC, F32, I32), (0xBD, F64, I64), (0xBE, I32, F32),
                    (0xBF, I64, F64)):
    _put(_op, 1, (_a,), _r)
assert len(NUMERIC) == 123 and sorted(NUMERIC) == list(range(0x45, 0xC0))

MEMOPS = {}                 # opcode -> (value type, access width in bytes, is_store)
for _op, _t, _w in ((0x28, I32, 4), (0x29, I64, 8), (0x2A, F32, 4), (0x2B, F64, 8), (0x2C, I32, 1),
                    (0x2D, I32, 1), (0x2E, I32, 2), (0x2F, I32, 2), (0x30, I64, 1), (0x31, I64, 1),
                    (0x32, I64, 2), (0x33, I64, 2), (0x34, I64, 4), (0x35, I64, 4), (0x36, I32, 4),
                    (0x37, I64, 8), (0x38, F32, 4), (0x39, F64, 8), (0x3A, I32, 1), (0x3B, I32, 2),
                    (0x3C, I64, 1), (0x3D, I64, 2), (0x3E, I64, 4)):
    MEMOPS[_op] = (_t, _w, _op >= 0x36)
CONST_TYPE = {0x41: I32, 0x42: I64, 0x43: F32, 0x44: F64}


class _Ctx:
    """Index spaces of a module: imports first, then definitions."""

    def __init__(self, m):
        self.types = m.types
        self.func_types = [d for (_, _, k, d) in m.imports if k == "func"] + list(m.funcs)
        self.tables = [d for (_, _, k, d) in m.imports if k == "table"] + list(m.tables)
        self.mems = [d for (_, _, k, d) in m.imports if k == "mem"] + list(m.mems)
        self.imported_globals = [d for (_, _, k, d) in m.imports if k == "global"]
        self.globals = self.imported_globals + [(t, mut) for (t, mut, _) in m.globals]


def _limits(lim, what, bound=None):
    mn, mx = lim
    if bound is not None and (mn > bound or (mx is not None and mx > bound)):
        raise ValidationError("memory-too-large", "%s limits %s exceed %d pages" % (what, lim, bound))
    if mx is not None and mn > mx:
        raise ValidationError("limits-min-gt-max", "%s: min %d > max %d" % (what, mn, mx))


def _const_expr(ctx, expr, want, what):
    """Constant expression of type [want]: t.const, or global.get of an imported immutable global."""
    if not expr or expr[-1][0] != 0x0B:
        raise ValidationError("const-expr", "%s: expression not terminated by end" % what)
    got = []
    for op, imm in expr[:-1]:
        if op in CONST_TYPE:
            got.append(CONST_TYPE[op])
        elif op == 0x23:
            if imm[0] >= len(ctx.imported_globals):
                if imm[0] < len(ctx.globals):
                    raise ValidationError("const-expr", "%s: global.get %d names a non-imported "
                                          "global" % (what, imm[0]))
                raise ValidationError("global-index-out-of-range", "%s: global.get %d" % (what, imm[0]))
            t, mut = ctx.imported_globals[imm[0]]
            if mut:
                raise ValidationError("const-expr", "%s: global.get %d of a mutable global"
                                      % (what, imm[0]))
            got.append(t)
        else:
            raise ValidationError("const-expr", "%s: opcode 0x%02x is not constant" % (what, op))
    if got != [want]:
        raise ValidationError("type-mismatch", "%s: constant expression has type %s, expected [%s]"
                              % (what, got, want))


def validate(m):
    ctx = _Ctx(m)
    ntypes = len(m.types)
    for (mod, nm, kind, desc) in m.imports:
        what = "import %s.%s" % (mod, nm)
        if kind == "func" and desc >= ntypes:
            raise ValidationError("type-index-out-of-range", "%s: type %d" % (what, desc))
        if kind == "table":
            _limits(desc, what)
        if kind == "mem":
            _limits(desc, what, MAX_PAGES)
    for i, ti in enumerate(m.funcs):
        if ti >= ntypes:
            raise ValidationError("type-index-out-of-range", "function %d: type %d (have %d)"
                                  % (i, ti, ntypes))
    for i, lim in enumerate(m.tables):
        _limits(lim, "table %d" % i)
    for i, lim in enumerate(m.mems):
        _limits(lim, "memory %d" % i, MAX_PAGES)
    if len(ctx.tables) > 1:
        raise ValidationError("multiple-tables", "%d tables (at most 1 in 1.0)" % len(ctx.tables))
    if len(ctx.mems) > 1:
        raise ValidationError("multiple-memories", "%d memories (at most 1 in 1.0)" % len(ctx.mems))
    for i, (t, _mut, init) in enumerate(m.globals):
        _const_expr(ctx, init, t, "global %d initialiser" % i)
    names = set()
    space = {"func": ctx.func_types, "table": ctx.tables, "mem": ctx.mems, "global": ctx.globals}
    for (nm, kind, idx) in m.exports:
        if nm in names:
            raise ValidationError("duplicate-export-name", "export name %r used twice" % nm)
        names.add(nm)
        if idx >= len(space[kind]):
            raise ValidationError("export-index-out-of-range", "export %r: %s %d (have %d)"
                                  % (nm, kind, idx, len(space[kind])))
    if m.start is not None:
        if m.start >= len(ctx.func_types):
            raise ValidationError("func-index-out-of-range", "start function %d" % m.start)
        if m.types[ctx.func_types[m.start]] != ((), ()):
            raise ValidationError("start-func-type", "start function %d has type %s, expected [] -> []"
                                  % (m.start, m.types[ctx.func_types[m.start]]))
    for i, (ti, off, funcs) in enumerate(m.elems):
        if ti >= len(ctx.tables):
            raise ValidationError("unknown-table", "element segment %d: table %d" % (i, ti))
        _const_expr(ctx, off, I32, "element segment %d offset" % i)
        for f in funcs:
            if f >= len(ctx.func_types):
                raise ValidationError("func-index-out-of-range", "element segment %d: function %d"
                                      % (i, f))
    for i, (mi, off, _b) in enumerate(m.datas):
        if mi >= len(ctx.mems):
            raise ValidationError("no-memory", "data segment %d: memory %d" % (i, mi))
        _const_expr(ctx, off, I32, "data segment %d offset" % i)
    if len(m.funcs) != len(m.codes):
        raise ValidationError("func-code-count-mismatch", "%d functions, %d bodies"
                              % (len(m.funcs), len(m.codes)))
    state = [0, 0]
    for fi, (ti, (locs, body)) in enumerate(zip(m.funcs, m.codes)):
        try:
            _check_body(ctx, m.types[ti], locs, body, state)
        except ValidationError as e:
            e.func, e.instr = fi, state[0]
            e.detail = "function %d (index %d), instruction %d (opcode 0x%02x): %s" % (
                fi, fi + len(ctx.func_types) - len(m.funcs), state[0], state[1], e.detail)
            e.args = ("%s: %s" % (e.rule, e.detail),)
            raise


def _check_body(ctx, ftype, locs, body, state):
    params, results = ftype
    locs = list(params) + list(locs)
    nlocs = len(locs)
    opds = []
    # control frame: [opcode, label types, end types, operand-stack height, unreachable]
    ctrls = [[0x02, results, results, 0, False]]
    numeric, memops = NUMERIC, MEMOPS
    push = opds.append

    def pop(expect=None):
        fr = ctrls[-1]
        if len(opds) == fr[3]:
            if fr[4]:
                return expect
            raise ValidationError("stack-underflow", "operand stack empty%s"
                                  % (", expected %s" % expect if expect else ""))
        t = opds.pop()
        if t is None:
            return expect
        if expect is not None and t != expect:
            raise ValidationError("type-mismatch", "expected %s, found %s" % (expect, t))
        return t

    def pop_many(types):
        for t in reversed(types):
            pop(t)

    def unreachable():
        fr = ctrls[-1]
        del opds[fr[3]:]
        fr[4] = True

    def label(n):
        if n >= len(ctrls):
            raise ValidationError("label-out-of-range", "label %d with %d enclosing blocks"
                                  % (n, len(ctrls)))
        return ctrls[-1 - n][1]

    def pop_ctrl():
        fr = ctrls[-1]
        pop_many(fr[2])
        if len(opds) != fr[3]:
            raise ValidationError("stack-height-at-end", "%d extra operand(s) at the end of the block"
                                  % (len(opds) - fr[3]))
        ctrls.pop()
        return fr

    i = -1
    for i, (op, imm) in enumerate(body):
        state[0], state[1] = i, op
        if not ctrls:
            raise ValidationError("unbalanced-end", "instructions after the end of the function")
        sig = numeric.get(op)
        if sig is not None:
            for t in sig[0]:
                pop(t)
            push(sig[1])
        elif op == 0x20:
            if imm[0] >= nlocs:
                raise ValidationError("local-index-out-of-range", "local %d (have %d)" % (imm[0], nlocs))
            push(locs[imm[0]])
        elif op == 0x21 or op == 0x22:
            if imm[0] >= nlocs:
                raise ValidationError("local-index-out-of-range", "local %d (have %d)" % (imm[0], nlocs))
            pop(locs[imm[0]])
            if op == 0x22:
                push(locs[imm[0]])
        elif 0x41 <= op <= 0x44:
            push(CONST_TYPE[op])
        elif op == 0x0B:
            fr = pop_ctrl()
            if fr[0] == 0x04 and fr[2]:
                raise ValidationError("type-mismatch", "if with result %s has no else" % (fr[2],))
            opds.extend(fr[2])
        elif op == 0x02 or op == 0x03 or op == 0x04:
            if op == 0x04:
                pop(I32)
            res = () if imm[0] is None else (imm[0],)
            if imm[0] is not None and imm[0] not in (I32, I64, F32, F64):
                raise ValidationError("bad-blocktype", "block type %r" % (imm[0],))
            ctrls.append([op, () if op == 0x03 else res, res, len(opds), False])
        elif op == 0x05:
            fr = pop_ctrl()
            if fr[0] != 0x04:
                raise ValidationError("misplaced-else", "else does not follow an if")
            ctrls.append([0x05, fr[1], fr[2], fr[3], False])
        elif op == 0x0C:
            pop_many(label(imm[0]))
            unreachable()
        elif op == 0x0D:
            pop(I32)
            lt = label(imm[0])
            pop_many(lt)
            opds.extend(lt)
        elif op == 0x0E:
            lt = label(imm[1])
            for n in imm[0]:
                if label(n) != lt:
                    raise ValidationError("type-mismatch", "br_table label %d has type %s, default "
                                          "has %s" % (n, label(n), lt))
            pop(I32)
            pop_many(lt)
            unreachable()
        elif op == 0x0F:
            pop_many(ctrls[0][1])
            unreachable()
        elif op == 0x10:
            if imm[0] >= len(ctx.func_types):
                raise ValidationError("func-index-out-of-range", "call %d (have %d)"
                                      % (imm[0], len(ctx.func_types)))
            ps, rs = ctx.types[ctx.func_types[imm[0]]]
            pop_many(ps)
            opds.extend(rs)
        elif op == 0x11:
            if not ctx.tables:
                raise ValidationError("no-table", "call_indirect without a table")
            if imm[0] >= len(ctx.types):
                raise ValidationError("type-index-out-of-range", "call_indirect type %d" % imm[0])
            ps, rs = ctx.types[imm[0]]
            pop(I32)
            pop_many(ps)
            opds.extend(rs)
        elif op == 0x1A:
            pop()
        elif op == 0x1B:
            pop(I32)
            t1 = pop()
            push(pop(t1))
        elif op == 0x23 or op == 0x24:
            if imm[0] >= len(ctx.globals):
                raise ValidationError("global-index-out-of-range", "global %d (have %d)"
                                      % (imm[0], len(ctx.globals)))
            t, mut = ctx.globals[imm[0]]
            if op == 0x23:
                push(t)
            else:
                if not mut:
                    raise ValidationError("immutable-global-set", "global.set %d of an immutable "
                                          "global" % imm[0])
                pop(t)
        elif op in memops:
            t, width, store = memops[op]
            if not ctx.mems:
                raise ValidationError("no-memory", "memory instruction without a memory")
            if imm[0] >= 32 or (1 << imm[0]) > width:
                raise ValidationError("alignment-too-large", "alignment 2^%d exceeds the access "
                                      "width %d" % (imm[0], width))
            if store:
                pop(t)
                pop(I32)
            else:
                pop(I32)
                push(t)
        elif op == 0x3F or op == 0x40:
            if not ctx.mems:
                raise ValidationError("no-memory", "memory.size/grow without a memory")
            if op == 0x40:
                pop(I32)
            push(I32)
        elif op == 0x00:
            unreachable()
        elif op == 0x01:
            pass
        else:
            raise ValidationError("bad-opcode", "opcode 0x%02x is not a WebAssembly 1.0 instruction" % op)
    if ctrls:
        state[0] = i
        raise ValidationError("unbalanced-end", "%d block(s) still open at the end of the body"
                              % len(ctrls))


def validate_bytes(data):
    try:
        m = decode(data)
    except DecodeError as e:
        return (False, "decode", e.rule, "offset 0x%x: %s" % (e.offset, e.detail))
    try:
        validate(m)
    except ValidationError as e:
        return (False, "validate", e.rule, e.detail)
    return (True, None, None, None)
