"""Strict decoder for the WebAssembly 1.0 (MVP) binary format, written from the spec (section 5).

Independent reference: stdlib only, shares nothing with the compiler under test.

    decode(data) -> Module            raises DecodeError(rule, detail, offset)

Instruction form: every expression / function body is a *flat* list of ``(opcode, imms)`` tuples
in file order, including the ``else`` (0x05) markers and every ``end`` (0x0B), the final one too.
``imms`` per opcode:
    block/loop/if      (blocktype,)            blocktype is None or 'i32'|'i64'|'f32'|'f64'
    br, br_if          (label,)
    br_table           (labels_tuple, default)
    call               (funcidx,)
    call_indirect      (typeidx,)              (reserved table byte must be 0x00)
    local.*, global.*  (index,)
    loads / stores     (align, offset)         align is the exponent as written
    i32.const/i64.const (signed_value,)
    f32.const/f64.const (raw_bits,)            unsigned int holding the IEEE bit pattern
    everything else    ()
"""

VALTYPES = {0x7F: "i32", 0x7E: "i64", 0x7D: "f32", 0x7C: "f64"}
KINDS = ("func", "table", "mem", "global")
SECTION_NAMES = ("custom", "type", "import", "function", "table", "memory", "global", "export",
                 "start", "element", "code", "data")


class DecodeError(Exception):
    def __init__(self, rule, detail, offset):
        Exception.__init__(self, "%s at 0x%x: %s" % (rule, offset, detail))
        self.rule, self.detail, self.offset = rule, detail, offset
        self.module = None          # partially decoded Module (sections / leb_log so far)


class Module:
    """types: [(params, results)] tuples of valtype strings
    imports: [(module, name, kind, desc)]  desc: func -> typeidx; table -> (min, max|None);
             mem -> (min, max|None); global -> (valtype, mutable)
    funcs: [typeidx] (defined functions)   tables/mems: [(min, max|None)]
    globals: [(valtype, mutable, init_expr)]   exports: [(name, kind, index)]   start: idx|None
    elems: [(tableidx, offset_expr, [funcidx])]   datas: [(memidx, offset_expr, bytes)]
    codes: [(locals (expanded list of valtype strings), body)]
    code_offsets: per body, the file offset of every instruction (parallel to body)
    customs: [(name, payload_offset, payload_len)]
    sections: [{id, offset, size_field_value, payload_offset, payload_len}] in file order
    body_spans: [{offset, size_field_value, payload_len}] per code body
    leb_raw: [(offset, nbytes, kind, value, role)];  leb_log: same as list of dicts (lazy)
    """

    def __init__(self):
        self.types, self.imports, self.funcs, self.tables, self.mems = [], [], [], [], []
        self.globals, self.exports, self.start, self.elems, self.codes = [], [], None, [], []
        self.datas, self.customs, self.sections, self.body_spans = [], [], [], []
        self.code_offsets, self.leb_raw, self._leb_dicts = [], [], None
        self.local_groups = []      # per body: [(count, valtype)] as written

    @property
    def leb_log(self):
        if self._leb_dicts is None or len(self._leb_dicts) != len(self.leb_raw):
            self._leb_dicts = [dict(offset=o, nbytes=n, kind=k, value=v, role=r)
                               for (o, n, k, v, r) in self.leb_raw]
        return self._leb_dicts

    def imported(self, kind):
        return [i for i in self.imports if i[2] == kind]


# immediate kinds per opcode; -1 = not an MVP opcode
_K = [-1] * 256
for _op in (0x00, 0x01, 0x05, 0x0B, 0x0F, 0x1A, 0x1B):
    _K[_op] = 0
for _op in range(0x45, 0xC0):
    _K[_op] = 0
for _op in (0x02, 0x03, 0x04):
    _K[_op] = 1
_K[0x0C] = _K[0x0D] = 2
_K[0x0E], _K[0x10], _K[0x11] = 3, 4, 5
_K[0x20] = _K[0x21] = _K[0x22] = 6
_K[0x23] = _K[0x24] = 7
for _op in range(0x28, 0x3F):
    _K[_op] = 8
_K[0x3F] = _K[0x40] = 9
_K[0x41], _K[0x42], _K[0x43], _K[0x44] = 10, 11, 12, 13
_NOIMM = [(op, ()) for op in range(256)]


class _Reader:
    __slots__ = ("d", "p", "end", "log", "lim")

    def __init__(self, data, log):
        self.d, self.p, self.end, self.log, self.lim = data, 0, len(data), log, "unexpected-eof"

    def eof(self, off):
        raise DecodeError(self.lim, "field runs past the end of the enclosing %s" % (
            {"unexpected-eof": "file", "section-size-mismatch": "section",
             "body-size-mismatch": "function body"}[self.lim]), off)

    def byte(self):
        p = self.p
        if p >= self.end:
            self.eof(p)
        self.p = p + 1
        return self.d[p]

    def take(self, n):
        p = self.p
        if p + n > self.end:
            self.eof(p)
        self.p = p + n
        return self.d[p:p + n]

    def u32(self, role):
        d, p, end = self.d, self.p, self.end
        if p >= end:
            self.eof(p)
        b = d[p]
        if b < 0x80:
            self.p = p + 1
            self.log.append((p, 1, "u32", b, role))
            return b
        start, result, shift = p, b & 0x7F, 7
        p += 1
        while True:
            if p >= end:
                self.eof(p)
            b = d[p]
            p += 1
            if shift == 28:
                if b & 0x80:
                    raise DecodeError("leb-too-long", "u32 %s longer than 5 bytes" % role, start)
                if b & 0x70:
                    raise DecodeError("leb-unused-bits", "u32 %s: 5th byte 0x%02x has bits beyond "
                                      "2^32" % (role, b), start)
            result |= (b & 0x7F) << shift
            if b < 0x80:
                break
            shift += 7
        self.p = p
        self.log.append((start, p - start, "u32", result, role))
        return result

    def sleb(self, role, bits):
        d, p, end = self.d, self.p, self.end
        start, result, shift, n = p, 0, 0, 0
        maxbytes = (bits + 6) // 7
        kind = "s32" if bits == 32 else "s64"
        while True:
            if p >= end:
                self.eof(p)
            b = d[p]
            p += 1
            n += 1
            result |= (b & 0x7F) << shift
            shift += 7
            if b < 0x80:
                break
            if n == maxbytes:
                raise DecodeError("leb-too-long", "%s %s longer than %d bytes" % (kind, role, maxbytes),
                                  start)
        if n == maxbytes:
            rem = bits - 7 * (maxbytes - 1)          # value bits carried by the last byte
            top = (b & 0x7F) >> (rem - 1)            # the sign bit and everything above it
            if top != 0 and top != (1 << (8 - rem)) - 1:
                raise DecodeError("leb-unused-bits", "%s %s: last byte 0x%02x is not a sign "
                                  "extension" % (kind, role, b), start)
        if b & 0x40:
            result -= 1 << shift
        self.p = p
        self.log.append((start, n, kind, result, role))
        return result

    def name(self, role):
        n = self.u32(role + "-length")
        off = self.p
        raw = self.take(n)
        try:
            return bytes(raw).decode("utf-8")
        except UnicodeDecodeError as e:
            raise DecodeError("bad-utf8", "%s: %s" % (role, e.reason), off + e.start)

    def valtype(self, what):
        off = self.p
        b = self.byte()
        t = VALTYPES.get(b)
        if t is None:
            raise DecodeError("bad-valtype", "%s: 0x%02x is not a value type" % (what, b), off)
        return t

    def limits(self, what):
        off = self.p
        flag = self.byte()
        if flag > 1:
            raise DecodeError("bad-limits-flag", "%s limits flag 0x%02x" % (what, flag), off)
        mn = self.u32("limits")
        return (mn, self.u32("limits") if flag else None)

    def tabletype(self):
        off = self.p
        et = self.byte()
        if et != 0x70:
            raise DecodeError("bad-elemtype", "table element type 0x%02x (only funcref 0x70)" % et, off)
        return self.limits("table")

    def globaltype(self):
        t = self.valtype("global type")
        off = self.p
        m = self.byte()
        if m > 1:
            raise DecodeError("bad-mutability", "global mutability byte 0x%02x" % m, off)
        return (t, bool(m))

    def expr(self, offsets=None):
        """Decode instructions up to and including the `end` that closes the expression."""
        d, log, K, NOIMM, u32 = self.d, self.log, _K, _NOIMM, self.u32
        out, nest = [], []
        while True:
            off = self.p
            if off >= self.end:
                raise DecodeError("unterminated-body", "instruction sequence not closed by `end` "
                                  "(%d block(s) open)" % len(nest), off)
            op = d[off]
            self.p = off + 1
            k = K[op]
            if offsets is not None:
                offsets.append(off)
            if k == 0:
                out.append(NOIMM[op])
                if op == 0x0B:
                    if not nest:
                        return out
                    nest.pop()
                elif op == 0x05:
                    if not nest or nest[-1] != 0x04:
                        raise DecodeError("misplaced-else", "`else` without an open `if`", off)
                    nest[-1] = 0x05
            elif k == 6:
                out.append((op, (u32("local-index"),)))
            elif k == 10:
                out.append((op, (self.sleb("i32.const", 32),)))
            elif k == 1:
                b = self.byte()
                if b == 0x40:
                    bt = None
                else:
                    bt = VALTYPES.get(b)
                    if bt is None:
                        raise DecodeError("bad-blocktype", "block type 0x%02x" % b, off + 1)
                nest.append(op)
                out.append((op, (bt,)))
            elif k == 2:
                out.append((op, (u32("label"),)))
            elif k == 8:
                out.append((op, (u32("memarg"), u32("memarg"))))
            elif k == 7:
                out.append((op, (u32("global-index"),)))
            elif k == 4:
                out.append((op, (u32("func-index"),)))
            elif k == 12:
                out.append((op, (int.from_bytes(self.take(4), "little"),)))
            elif k == 13:
                out.append((op, (int.from_bytes(self.take(8), "little"),)))
            elif k == 11:
                out.append((op, (self.sleb("i64.const", 64),)))
            elif k == 3:
                n = u32("vec-count")
                labels = tuple([u32("label") for _ in range(n)])
                out.append((op, (labels, u32("label"))))
            elif k == 5:
                ti = u32("type-index")
                if self.byte() != 0:
                    raise DecodeError("bad-reserved-byte", "call_indirect table byte must be 0x00",
                                      self.p - 1)
                out.append((op, (ti,)))
            elif k == 9:
                if self.byte() != 0:
                    raise DecodeError("bad-reserved-byte", "memory.size/grow byte must be 0x00",
                                      self.p - 1)
                out.append(NOIMM[op])
            else:
                raise DecodeError("bad-opcode", "opcode 0x%02x is not a WebAssembly 1.0 instruction"
                                  % op, off)


def _sec_type(r, m):
    for _ in range(r.u32("vec-count")):
        off = r.p
        tag = r.byte()
        if tag != 0x60:
            raise DecodeError("bad-functype-tag", "function type tag 0x%02x (expected 0x60)" % tag, off)
        params = tuple([r.valtype("param") for _ in range(r.u32("vec-count"))])
        off = r.p
        nres = r.u32("vec-count")
        if nres > 1:
            raise DecodeError("too-many-results", "%d results (at most 1 in 1.0)" % nres, off)
        m.types.append((params, tuple([r.valtype("result") for _ in range(nres)])))


def _sec_import(r, m):
    for _ in range(r.u32("vec-count")):
        mod, nm = r.name("import-module-name"), r.name("import-name")
        off = r.p
        k = r.byte()
        if k == 0:
            desc = r.u32("type-index")
        elif k == 1:
            desc = r.tabletype()
        elif k == 2:
            desc = r.limits("memory")
        elif k == 3:
            desc = r.globaltype()
        else:
            raise DecodeError("bad-import-kind", "import kind 0x%02x" % k, off)
        m.imports.append((mod, nm, KINDS[k], desc))


def _sec_function(r, m):
    m.funcs.extend([r.u32("type-index") for _ in range(r.u32("vec-count"))])


def _sec_table(r, m):
    for _ in range(r.u32("vec-count")):
        m.tables.append(r.tabletype())


def _sec_memory(r, m):
    for _ in range(r.u32("vec-count")):
        m.mems.append(r.limits("memory"))


def _sec_global(r, m):
    for _ in range(r.u32("vec-count")):
        t, mut = r.globaltype()
        m.globals.append((t, mut, r.expr()))


def _sec_export(r, m):
    for _ in range(r.u32("vec-count")):
        nm = r.name("export-name")
        off = r.p
        k = r.byte()
        if k > 3:
            raise DecodeError("bad-export-kind", "export kind 0x%02x" % k, off)
        m.exports.append((nm, KINDS[k], r.u32(KINDS[k] + "-index")))


def _sec_start(r, m):
    m.start = r.u32("func-index")


def _sec_elem(r, m):
    for _ in range(r.u32("vec-count")):
        ti = r.u32("table-index")
        off = r.expr()
        m.elems.append((ti, off, [r.u32("func-index") for _ in range(r.u32("vec-count"))]))


def _sec_code(r, m):
    sec_end = r.end
    for _ in range(r.u32("vec-count")):
        size_off = r.p
        size = r.u32("body-size")
        start = r.p
        span = dict(offset=size_off, size_field_value=size, payload_len=None)
        m.body_spans.append(span)
        if start + size > sec_end:
            r.eof(start)
        r.end, r.lim = start + size, "body-size-mismatch"
        locs, groups, total = [], [], 0
        for _ in range(r.u32("vec-count")):
            off = r.p
            n = r.u32("local-count")
            t = r.valtype("local")
            total += n
            if total >= 1 << 32:
                raise DecodeError("too-many-locals", "%d locals declared" % total, off)
            groups.append((n, t))
        if total > 1 << 20:      # legal but absurd: do not expand (validator sees the groups)
            raise DecodeError("locals-implementation-limit", "%d locals: legal in 1.0 but beyond this "
                              "reference's limit of 2^20" % total, start)
        for n, t in groups:
            locs.extend([t] * n)
        offsets = []
        body = r.expr(offsets)
        span["payload_len"] = r.p - start
        if r.p != r.end:
            raise DecodeError("body-size-mismatch", "body declares %d bytes, its expression ends "
                              "after %d" % (size, r.p - start), r.p)
        r.end, r.lim = sec_end, "section-size-mismatch"
        m.codes.append((locs, body))
        m.local_groups.append(groups)
        m.code_offsets.append(offsets)


def _sec_data(r, m):
    for _ in range(r.u32("vec-count")):
        mi = r.u32("mem-index")
        off = r.expr()
        m.datas.append((mi, off, bytes(r.take(r.u32("vec-count")))))


_SECTIONS = {1: _sec_type, 2: _sec_import, 3: _sec_function, 4: _sec_table, 5: _sec_memory,
             6: _sec_global, 7: _sec_export, 8: _sec_start, 9: _sec_elem, 10: _sec_code,
             11: _sec_data}


def decode(data):
    data = bytes(data)
    m = Module()
    try:
        _decode(data, m)
    except DecodeError as e:
        e.module = m
        raise
    return m


def _decode(data, m):
    r = _Reader(data, m.leb_raw)
    if len(data) < 4 or data[:4] != b"\0asm":
        raise DecodeError("unexpected-eof" if len(data) < 4 and b"\0asm".startswith(data)
                          else "bad-magic", "file does not start with \\0asm", 0)
    if len(data) < 8:
        raise DecodeError("unexpected-eof", "truncated version field", len(data))
    if data[4:8] != b"\x01\0\0\0":
        raise DecodeError("bad-version", "version bytes %s (expected 01 00 00 00)" % data[4:8].hex(), 4)
    r.p = 8
    last, seen, total = 0, set(), len(data)
    while r.p < total:
        off = r.p
        sid = r.byte()
        try:
            size = r.u32("section-size")
        except DecodeError as e:
            if e.rule != "unexpected-eof":
                raise
            raise DecodeError("trailing-bytes", "%d byte(s) after the last complete section do not "
                              "form a section header" % (total - off), off)
        start = r.p
        rec = dict(id=sid, offset=off, size_field_value=size, payload_offset=start, payload_len=None)
        m.sections.append(rec)
        if sid > 11:
            raise DecodeError("unknown-section", "section id %d is not defined in 1.0" % sid, off)
        if start + size > total:
            raise DecodeError("unexpected-eof", "section %d declares %d bytes, %d remain"
                              % (sid, size, total - start), start)
        if sid:
            if sid in seen:
                raise DecodeError("duplicate-section", "section %d (%s) appears twice"
                                  % (sid, SECTION_NAMES[sid]), off)
            if sid < last:
                raise DecodeError("section-order", "section %d (%s) after section %d"
                                  % (sid, SECTION_NAMES[sid], last), off)
            seen.add(sid)
            last = sid
        r.end, r.lim = start + size, "section-size-mismatch"
        if sid:
            _SECTIONS[sid](r, m)
        else:
            m.customs.append((r.name("custom-section-name"), start, size))
            r.p = r.end
        rec["payload_len"] = r.p - start
        if r.p != r.end:
            raise DecodeError("section-size-mismatch", "section %d (%s) declares %d bytes, content "
                              "is %d" % (sid, SECTION_NAMES[sid], size, r.p - start), r.p)
        r.end, r.lim = total, "unexpected-eof"
    if r.p != total:                       # defensive: cannot happen, sections tile the file
        raise DecodeError("trailing-bytes", "%d bytes after the last section" % (total - r.p), r.p)
    if len(m.funcs) != len(m.codes):
        raise DecodeError("func-code-count-mismatch", "function section declares %d functions, code "
                          "section has %d bodies" % (len(m.funcs), len(m.codes)), total)
