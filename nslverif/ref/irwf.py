"""C14 oracle: well-formedness of a live LinearIR function / module / linked program.

Independent of the code under test in the sense that matters: operands are read through each
instruction's public properties (Values, Value, Store, Array, Index, Variable, First/Second,
Arguments, Predicate) — not through `Uses`, which is one of the things under test — and the
control-flow graph is rebuilt here exactly as the VM executes a function (flattened instruction
list, a branch continues at the first instruction of its target block).

Findings are dicts {rule, fn, detail...}.  Rules:
  duplicate-reference        two values (blocks, instructions, constants) of a function share a reference
  operand-not-a-value        an operand object has no usable Reference
  operand-foreign-constant   a constant operand is not one of the function's constants
  operand-dangling           the operand's reference is produced by no instruction currently in the function
  operand-of-non-value       the operand refers to an instruction that produces no value (a store, branch, return)
  use-before-def             on some path the defining instruction has not executed before the use
  local-not-declared         a load/store of a local variable that is not declared on every path to it
  branch-target-missing      a branch without target / a conditional branch without both targets
  branch-target-foreign      a branch target that is not a block of this function
  call-unknown-function      (linked) a call names a function the program does not contain
  call-arity-mismatch        (linked) argument count differs from the callee's parameter count
"""
from ..mon.vmobs import operand_values

NON_VALUE_OPS = {"STORE", "STORE_ARRAY", "STORE_MEMBER", "BRANCH", "RETURN"}


def _ref(v):
    r = getattr(v, "Reference", None)
    return r if isinstance(r, int) else None


def check_function(fn, findings=None, limit=40):
    out = findings if findings is not None else []
    name = fn.Name

    def add(rule, **kw):
        if len(out) < limit:
            d = {"rule": rule, "fn": name}
            d.update(kw)
            out.append(d)

    blocks = list(fn.BasicBlocks)
    block_ids = {id(b) for b in blocks}
    consts = list(fn.Constants)
    const_refs = {}
    for c in consts:
        const_refs[_ref(c)] = c
    # 1. unique references
    seen = {}
    for kind, objs in (("block", blocks), ("constant", consts)):
        for o in objs:
            r = _ref(o)
            if r in seen:
                add("duplicate-reference", ref=r, between="%s and %s" % (seen[r], kind))
            seen[r] = kind
    flat = []
    block_offset = {}
    for b in blocks:
        block_offset[id(b)] = len(flat)
        for ins in b.Instructions:
            flat.append(ins)
    producers = {}
    for idx, ins in enumerate(flat):
        r = _ref(ins)
        if r in seen:
            add("duplicate-reference", ref=r, between="%s and instruction %s" % (seen[r], ins.OpCode.name))
        seen[r] = "instruction"
        producers[r] = (idx, ins)
    # 2. operands exist and are value-producing; 4. branch targets
    uses = []   # per instruction: list of refs that must be defined (excluding constants)
    succ = []
    for idx, ins in enumerate(flat):
        op = ins.OpCode.name
        need = []
        try:
            operands = operand_values(ins)
        except Exception as e:
            add("operand-not-a-value", pc=idx, op=op, detail="operands unreadable: %s: %s" % (type(e).__name__, e))
            operands = []
        for v in operands:
            r = _ref(v)
            if r is None or r < 0:
                add("operand-not-a-value", pc=idx, op=op, operand=repr(v)[:40])
                continue
            if type(v).__name__ == "ConstantValue" or r in const_refs:
                if r not in const_refs:
                    add("operand-foreign-constant", pc=idx, op=op, ref=r)
                continue
            p = producers.get(r)
            if p is None:
                add("operand-dangling", pc=idx, op=op, ref=r)
                continue
            if p[1].OpCode.name in NON_VALUE_OPS:
                add("operand-of-non-value", pc=idx, op=op, ref=r, producer=p[1].OpCode.name)
                continue
            need.append(r)
        uses.append(need)
        nxt = []
        if op == "BRANCH":
            tb, fb, pred = ins.TrueBlock, ins.FalseBlock, ins.Predicate
            targets = [tb] if pred is None else [tb, fb]
            if tb is None or (pred is not None and fb is None):
                add("branch-target-missing", pc=idx, conditional=pred is not None)
            for t in targets:
                if t is None:
                    continue
                if id(t) not in block_ids:
                    # the VM resolves targets by reference number: tolerate a stale object carrying the number
                    # of a block of this function
                    match = [b for b in blocks if _ref(b) == _ref(t)] if _ref(t) is not None else []
                    if not match:
                        add("branch-target-foreign", pc=idx, target=repr(t)[:40])
                        continue
                    t = match[0]
                nxt.append(block_offset[id(t)])
        elif op == "RETURN":
            pass
        else:
            nxt.append(idx + 1)
        succ.append(nxt)
    # 3. must-defined dataflow (forward, intersection), together with declared local names
    n = len(flat)
    if n:
        ALL = None
        IN = [ALL] * n
        IN[0] = frozenset()
        work = [0]
        while work:
            i = work.pop()
            cur = IN[i]
            ins = flat[i]
            gen = set()
            r = _ref(ins)
            opn = ins.OpCode.name
            if opn not in NON_VALUE_OPS and r is not None:
                gen.add(r)
            if opn == "NEW_VARIABLE":
                gen.add(("local", ins.Name))
            o = cur | gen if gen else cur
            for s in succ[i]:
                if s >= n:
                    continue
                if IN[s] is ALL:
                    IN[s] = frozenset(o)
                    work.append(s)
                else:
                    new = IN[s] & o
                    if new != IN[s]:
                        IN[s] = new
                        work.append(s)
        for i in range(n):
            if IN[i] is ALL:
                continue        # unreachable
            ins = flat[i]
            for r in uses[i]:
                if r not in IN[i]:
                    add("use-before-def", pc=i, op=ins.OpCode.name, ref=r, producer=producers[r][1].OpCode.name,
                        producer_pc=producers[r][0])
            opn = ins.OpCode.name
            if opn in ("LOAD", "STORE"):
                try:
                    if ins.Scope.name == "FUNCTION_LOCAL" and ("local", ins.Variable) not in IN[i]:
                        add("local-not-declared", pc=i, op=opn, name=str(ins.Variable))
                except Exception:
                    pass
    return out


def check_module(module, limit=40):
    out = []
    for fn in module.Functions.values():
        check_function(fn, out, limit)
    return out


def check_program(program, limit=40):
    """rule 5 on a linked program (plus everything else on each function)"""
    out = []
    fns = program.Functions
    for fn in fns.values():
        check_function(fn, out, limit)
        for b in fn.BasicBlocks:
            for ins in b.Instructions:
                if ins.OpCode.name != "CALL":
                    continue
                callee = fns.get(ins.Function)
                if callee is None:
                    if len(out) < limit:
                        out.append({"rule": "call-unknown-function", "fn": fn.Name, "callee": str(ins.Function)})
                    continue
                try:
                    want = len(callee.Type.Arguments)
                except Exception:
                    continue
                if len(ins.Arguments) != want:
                    if len(out) < limit:
                        out.append({"rule": "call-arity-mismatch", "fn": fn.Name, "callee": str(ins.Function),
                                    "arguments": len(ins.Arguments), "parameters": want})
    return out


def stats(module):
    nb = ni = 0
    for fn in module.Functions.values():
        for b in fn.BasicBlocks:
            nb += 1
            ni += len(b.Instructions)
    return nb, ni
