"""C16 — separately compiled, imported and linked modules behave like one program.

Deciding monitors: multi-process event log.  Every module of a partitioned program is compiled by the
real `nslc.py` in its own process (cwd = a scratch directory), the roots are linked in a fresh process
through the repository's FilesystemModuleLoader in every add order, with a loader call log; results
are compared with the reference interpreter on the union program.  Duplicate definitions across added
modules must fail the link.
"""
import itertools
import os
import random
import shutil
import tempfile

from .. import diff
from ..gen import modules as gmod
from ..lang import print_module, INT, IntLit, Var, Bin, Block, Return, Func
from ..procs import runner
from ..ref import sem

PROPERTY = "C16"
TECHNIQUE = "multi-process compile (nslc.py) + link in every add order in a fresh process with a loader call log, results vs reference interpreter on the union program"
LEVEL_TEXT = ("Seeded random acyclic call graphs cut into 1-3 library modules plus 1-2 root modules (single, chain, fan-in and diamond "
              "import shapes arise from the call graph; import statements first / after other items / spread / last). Each module is "
              "compiled by nslc.py in its own process, the roots are added in every order and linked in another process; every "
              "exported root function is run on several inputs and compared with the reference interpreter evaluating all functions "
              "as one program; each module file must be loaded at most once per link; duplicate function/global definitions across "
              "added modules, and across two libraries reached over different import paths, must be rejected; several links in one process (shared "
              "Module objects, a library stored again in between, one linker used incrementally) must behave like fresh links.")
LEVEL_NOTE = ("Trusted: reference interpreter, the loader call log (subclass of the repository's FilesystemModuleLoader in the helper "
              "process). Library modules carry no globals and no struct types (the import metadata cannot express them: accept-or-"
              "reject territory, not generated). A module both added explicitly and reached by import may be rejected or behave "
              "equally, never differently.")
RULE = ("case = (module texts, add order); non-trivial when >= 2 modules are linked and >= 1 executed call crosses a module "
        "boundary; distinct by (texts, order).")
ASSUMPTIONS = ["nslc.py exit status 0 and an output file = module compiled", "process start cost bounds the sample size"]
SHARD_TIMEOUT = {"quick": 1200, "thorough": 7200}
BUDGET = {"quick": 4, "thorough": 50}
INPUT_X = (0, 2, 5)


def shards(tier):
    return 16


def compile_all(R, tmp, sp, label):
    """compile libs then roots; returns True when every module compiled"""
    order = [(n, sp.layouts[n]) for n, _, _ in sp.libs] + [(n, sp.layouts[n]) for n, _, _, _ in sp.roots]
    for name, (text, mode) in order:
        os.makedirs(os.path.dirname(os.path.join(tmp, name + ".nsl")), exist_ok=True)
        with open(os.path.join(tmp, name + ".nsl"), "w") as f:
            f.write(text)
        rc, out = runner.nslc(tmp, name + ".nsl", name + ".nslir")
        R.count("nslc_processes")
        ok = rc == 0 and os.path.exists(os.path.join(tmp, name + ".nslir")) and os.path.getsize(os.path.join(tmp, name + ".nslir")) > 0
        if not ok:
            has_imports = 'import "' in text
            R.violation("module-compile-fails:%s" % (("imports-" + mode) if has_imports else "no-imports"),
                        "%s: nslc fails on module %s (exit %s): %s" % (label, name, rc, (out or "")[-200:].replace("\n", " / ")),
                        {"sources": {n: sp.layouts[n][0] for n in sp.layouts}, "module": name, "placement": mode})
            return False
    return True


def expected(sp, root_funcs, gl0):
    exp = {}
    for f in root_funcs:
        for x in INPUT_X:
            r = diff.run_ref(sp.union, f.name, {"x": x}, gl0)
            exp[(f.name, x)] = r
    return exp


def run_split(R, rng, sp, label, tier, force_sequence=False):
    tmp = tempfile.mkdtemp(prefix="nslverif_c16_")
    try:
        R.count("programs")
        if not compile_all(R, tmp, sp, label):
            return
        root_names = [n for n, _, _, _ in sp.roots]
        root_funcs = [f for _, fs, _, _ in sp.roots for f in fs if f.exported]
        gl0 = {g[1]: 3 for _, _, _, gl in sp.roots for g in gl}
        exp = expected(sp, root_funcs, gl0)
        calls = [[f.name, {"x": x}, gl0] for f in root_funcs for x in INPUT_X]
        texts = {n: sp.layouts[n][0] for n in sp.layouts}
        nmods = len(sp.libs) + len(sp.roots)
        first = None
        for order in itertools.permutations(root_names):
            res = runner.helper("loadrun", {"cwd": tmp, "modules": [n + ".nslir" for n in order], "calls": calls, "listing_of": None})
            R.evaluations += 1
            R.count("link_processes")
            rep = {"sources": texts, "add_order": list(order), "calls": calls}
            if res.get("error"):
                shape = "transitive" if any(imps for _, _, imps in sp.libs) else "direct"
                R.violation("link-fails:%s:%s" % (res["error"]["cls"], shape),
                            "%s: linking %s fails: %s %s" % (label, list(order), res["error"]["cls"], res["error"]["msg"][:100]), rep)
                continue
            loads = res["loads"]
            R.count("module_loads_observed", len(loads))
            dup = sorted({l for l in loads if loads.count(l) > 1})
            if dup:
                R.violation("module-loaded-more-than-once", "%s: %s loaded %d times while linking %s" % (label, dup[0], loads.count(dup[0]), list(order)),
                            dict(rep, loads=loads))
            bad = False
            for (fname, args, gl), got in zip(calls, res["results"]):
                r = exp[(fname, args["x"])]
                if r.status != "ok":
                    R.count("dropped_" + r.status)
                    continue
                R.count("calls_compared")
                if got["status"] != "ok":
                    R.violation("linked-call-fails:%s" % got.get("cls"), "%s: %s(x=%s) fails in the linked program: %s" % (label, fname, args["x"], got), rep)
                    bad = True
                    break
                if not sem.values_equal(r.value, got["value"]) or any(not sem.values_equal(r.globals[k], got["globals"].get(k)) for k in gl):
                    R.violation("linked-result-differs", "%s: %s(x=%s) = %r / globals %r in the linked program, one-module semantics give %r / %r"
                                % (label, fname, args["x"], got["value"], got["globals"], r.value, {k: r.globals[k] for k in gl}), rep)
                    bad = True
                    break
            if not bad:
                key = repr([(g["status"], g.get("value")) for g in res["results"]])
                if first is None:
                    first = key
                elif key != first:
                    R.violation("add-order-changes-results", "%s: results depend on the order modules were added" % label, rep)
                if nmods >= 2:
                    R.nontriv(repr(sorted(texts.items())), order)
        # a module both added explicitly and reached by import: reject or equal behaviour
        if sp.libs and rng.random() < 0.5:
            extra = rng.choice(sp.libs)[0]
            res = runner.helper("loadrun", {"cwd": tmp, "modules": [n + ".nslir" for n in root_names] + [extra + ".nslir"], "calls": calls, "listing_of": None})
            R.count("link_processes")
            if not res.get("error"):
                for (fname, args, gl), got in zip(calls, res["results"]):
                    r = exp[(fname, args["x"])]
                    if r.status == "ok" and (got["status"] != "ok" or not sem.values_equal(r.value, got["value"])):
                        R.violation("added-and-imported-module-changes-behaviour", "%s: adding %s explicitly as well changes %s" % (label, extra, fname),
                                    {"sources": texts, "add_order": root_names + [extra]})
                        break
                R.count("added_and_imported_accepted")
            else:
                R.count("added_and_imported_rejected")
        # a library re-stored under the same name between two links in ONE process (default-constructed Linkers):
        # the second link must see the new contents
        if sp.libs:
            relink_after_restore(R, rng, tmp, sp, root_names, root_funcs, gl0, label)
        # several links in ONE process over the same Module objects (MemoryModuleLoader): each root alone, all roots, each
        # root alone again — every link must behave like a fresh process linking the same roots
        if sp.libs and (force_sequence or rng.random() < 0.6):
            link_sequence_shared_objects(R, rng, tmp, sp, root_names, gl0, label)
        # ONE linker used incrementally: a root is added, the program linked, the next root added, linked again ...; after
        # each step the program must be the one a fresh linker gives for the roots added so far
        if len(root_names) > 1 and rng.random() < 0.7:
            incremental_linker(R, rng, tmp, sp, root_names, gl0, label)
        if force_sequence or rng.random() < 0.3:
            duplicate_via_imports(R, tmp, label)
        # duplicate definitions across two added modules must fail the link
        # (these links do not depend on the generated program beyond its first root: twice per shard is enough)
        _DUP_RUNS[0] += 1
        for what in ("function", "global", "global-of-one-type", "global-vector-of-one-type") if _DUP_RUNS[0] <= 2 else ():
            a = "dupa_%s" % what
            b = "dupb_%s" % what
            if what == "function":
                ta = "export function dup (int x) -> int {\n  return x + 100;\n}\n"
                tb = "export function dup (int x) -> int {\n  return x + 200;\n}\n"
            elif what == "global-of-one-type":
                # the two declarations agree in type: still two definitions of one global
                ta = "int gdup;\nexport function fa (int x) -> int {\n  gdup = x;\n  return gdup;\n}\n"
                tb = "int gdup;\nexport function fb (int x) -> int {\n  return gdup + x;\n}\n"
            elif what == "global-vector-of-one-type":
                ta = "float3 gdup;\nexport function fa (float x) -> float {\n  gdup.y = x;\n  return gdup.y;\n}\n"
                tb = "float3 gdup;\nexport function fb (float x) -> float {\n  return gdup.x + x;\n}\n"
            else:
                ta = "int gdup;\nexport function fa (int x) -> int {\n  gdup = x;\n  return gdup;\n}\n"
                tb = "float gdup;\nexport function fb (int x) -> float {\n  return gdup + x;\n}\n"
            ok = True
            for n, t in ((a, ta), (b, tb)):
                with open(os.path.join(tmp, n + ".nsl"), "w") as f:
                    f.write(t)
                rc, out = runner.nslc(tmp, n + ".nsl", n + ".nslir")
                ok = ok and rc == 0
            if not ok:
                continue
            for order in ((a, b), (b, a)):
                res = runner.helper("loadrun", {"cwd": tmp, "modules": [root_names[0] + ".nslir", order[0] + ".nslir", order[1] + ".nslir"],
                                                "calls": [], "listing_of": None})
                R.count("duplicate_definition_links")
                if not res.get("error"):
                    R.violation("duplicate-%s-not-rejected" % what, "%s: two added modules both define the same %s and the link succeeds" % (label, what.split("-")[0]),
                                {"sources": {a: ta, b: tb}, "add_order": list(order)})
                else:
                    R.count("duplicate_rejected")
    finally:
        shutil.rmtree(tmp, ignore_errors=True)


def link_sequence_shared_objects(R, rng, tmp, sp, root_names, gl0, label):
    mem = {n: n + ".nslir" for n, _, _ in sp.libs}
    funcs_of = {n: [f for f in fs if f.exported] for n, fs, _, _ in sp.roots}
    seq = ([list(root_names)] if len(root_names) > 1 else [[root_names[0]]]) + [[r] for r in reversed(root_names)]
    # a diamond first, then the chains: add an extra root that imports every library directly
    rounds = []
    for roots in seq:
        calls = [[f.name, {"x": x}, gl0] for r in roots for f in funcs_of[r] for x in INPUT_X[:2]]
        rounds.append({"modules": [r + ".nslir" for r in roots], "calls": calls})
    shared = runner.helper("relink", {"cwd": tmp, "memory_loader": mem, "rounds": rounds})
    R.count("relink_processes")
    if shared.get("error") or len(shared.get("rounds", [])) != len(rounds):
        R.inconclusive.append("link-sequence helper failed: %s" % shared.get("error"))
        return
    for k, rd in enumerate(rounds):
        fresh = runner.helper("relink", {"cwd": tmp, "rounds": [rd]})
        R.count("relink_processes")
        R.evaluations += 1
        if fresh.get("error") or not fresh.get("rounds"):
            continue
        if shared["rounds"][k] != fresh["rounds"][0]:
            R.violation("link-sequence-over-shared-module-objects-differs", "%s: link %d of a sequence over the same Module objects (roots %s) behaves differently "
                        "from a fresh process: %s vs %s" % (label, k + 1, rd["modules"], str(shared["rounds"][k])[:150], str(fresh["rounds"][0])[:150]),
                        {"sources": {n: sp.layouts[n][0] for n in sp.layouts}, "sequence": [r["modules"] for r in rounds], "failing_link": k})
            return
    R.count("link_sequences_agree")


_DUP_RUNS = [0]


def duplicate_via_imports(R, tmp, label):
    """two libraries of the import closure define the same function (different bodies) and are reached over different import
    paths, so no single compilation sees both: the link has to fail whichever of them is loaded first (two namings)"""
    for tag, (ga, ua) in (("n1", ("dgeom", "dutil")), ("n2", ("xdgeom", "adutil")), ("n3", ("adgeom", "xdutil"))):
        texts = {
            ga: "function dclamp (int x) -> int {\n  if (x > 100) {\n    return 100;\n  }\n  return x;\n}\nfunction darea (int w, int h) -> int {\n  return dclamp(w) * dclamp(h);\n}\n",
            ua: "function dclamp (int x) -> int {\n  if (x > 255) {\n    return 255;\n  }\n  return x;\n}\n",
            "dpaint_" + tag: 'import "%s";\nfunction dshade (int c) -> int {\n  return dclamp(c * 2);\n}\n' % ua,
            "dtop_" + tag: 'import "%s";\nimport "dpaint_%s";\nexport function dmain (int a) -> int {\n  return darea(a, 2) + dshade(a);\n}\n' % (ga, tag),
        }
        ok = True
        for n in (ga, ua, "dpaint_" + tag, "dtop_" + tag):
            with open(os.path.join(tmp, n + ".nsl"), "w") as f:
                f.write(texts[n])
            rc, out = runner.nslc(tmp, n + ".nsl", n + ".nslir")
            ok = ok and rc == 0
            if not ok:
                break
        if not ok:
            R.count("duplicate_via_imports_rejected_by_the_compiler")
            continue
        res = runner.helper("loadrun", {"cwd": tmp, "modules": ["dtop_" + tag + ".nslir"], "calls": [["dmain", {"a": 90}, {}]], "listing_of": None})
        R.count("duplicate_definition_links")
        R.evaluations += 1
        if not res.get("error"):
            R.violation("duplicate-function-via-imports-not-rejected", "%s: libraries %s and %s both define dclamp(int); the link succeeds and dmain(90) = %s"
                        % (label, ga, ua, [g.get("value") for g in res.get("results", [])]), {"sources": texts, "add_order": ["dtop_" + tag]})
        else:
            R.count("duplicate_rejected")


def incremental_linker(R, rng, tmp, sp, root_names, gl0, label):
    funcs_of = {n: [f for f in fs if f.exported] for n, fs, _, _ in sp.roots}
    order = list(root_names)
    rng.shuffle(order)
    rounds, fresh_rounds = [], []
    for k, r in enumerate(order):
        calls = [[f.name, {"x": x}, gl0] for rr in order[:k + 1] for f in funcs_of[rr] for x in INPUT_X[:2]]
        rounds.append({"modules": [r + ".nslir"], "calls": calls})
        fresh_rounds.append({"modules": [rr + ".nslir" for rr in order[:k + 1]], "calls": calls})
    inc = runner.helper("relink", {"cwd": tmp, "one_linker": True, "rounds": rounds})
    R.count("relink_processes")
    if inc.get("error") or len(inc.get("rounds", [])) != len(rounds):
        R.inconclusive.append("incremental-link helper failed: %s" % inc.get("error"))
        return
    for k, rd in enumerate(fresh_rounds):
        fresh = runner.helper("relink", {"cwd": tmp, "rounds": [rd]})
        R.count("relink_processes")
        R.evaluations += 1
        if fresh.get("error") or not fresh.get("rounds"):
            continue
        if inc["rounds"][k] != fresh["rounds"][0]:
            R.violation("incremental-link-differs:%s" % ("late-module-without-imports" if not [i for n, _, i, _ in sp.roots if n == order[k]][0] else "late-module-with-imports"),
                        "%s: after adding %s to a linker that had already linked %s, Link() gives a program that behaves differently from a fresh link of the same "
                        "modules: %s vs %s" % (label, order[k], order[:k], str(inc["rounds"][k])[:150], str(fresh["rounds"][0])[:150]),
                        {"sources": {n: sp.layouts[n][0] for n in sp.layouts}, "add_sequence": order, "failing_step": k})
            return
    R.count("incremental_link_sequences_agree")


def relink_after_restore(R, rng, tmp, sp, root_names, root_funcs, gl0, label):
    import re
    lib = sp.libs[0][0]
    text = sp.layouts[lib][0]
    # version 2 of the library: same signatures, every integer literal of the bodies shifted
    v2 = re.sub(r"(?<![\w.])(\d+)(?![\w.])", lambda m: str(int(m.group(1)) + 3), text)
    if v2 == text:
        return
    os.makedirs(os.path.dirname(os.path.join(tmp, "v2", lib + ".nsl")), exist_ok=True)
    # compile version 2 in a directory of its own (it imports nothing that changed)
    for n2, _, _ in sp.libs:
        src = v2 if n2 == lib else sp.layouts[n2][0]
        os.makedirs(os.path.dirname(os.path.join(tmp, "v2", n2 + ".nsl")), exist_ok=True)
        with open(os.path.join(tmp, "v2", n2 + ".nsl"), "w") as f:
            f.write(src)
        rc, out = runner.nslc(os.path.join(tmp, "v2"), n2 + ".nsl", n2 + ".nslir")
        if rc != 0:
            R.count("relink_setup_failed")
            return
    import shutil as _sh
    _sh.copyfile(os.path.join(tmp, lib + ".nslir"), os.path.join(tmp, "lib_v1.bin"))
    _sh.copyfile(os.path.join(tmp, "v2", lib + ".nslir"), os.path.join(tmp, "lib_v2.bin"))
    calls = [[f.name, {"x": x}, gl0] for f in root_funcs for x in INPUT_X]
    roots = [n + ".nslir" for n in root_names]
    two = runner.helper("relink", {"cwd": tmp, "rounds": [{"install": {lib + ".nslir": "lib_v1.bin"}, "modules": roots, "calls": calls},
                                                            {"install": {lib + ".nslir": "lib_v2.bin"}, "modules": roots, "calls": calls}]})
    fresh = runner.helper("relink", {"cwd": tmp, "rounds": [{"install": {lib + ".nslir": "lib_v2.bin"}, "modules": roots, "calls": calls}]})
    _sh.copyfile(os.path.join(tmp, "lib_v1.bin"), os.path.join(tmp, lib + ".nslir"))
    R.count("relink_processes", 2)
    R.evaluations += 1
    if two.get("error") or fresh.get("error") or len(two.get("rounds", [])) != 2:
        R.inconclusive.append("relink helper failed: %s %s" % (two.get("error"), fresh.get("error")))
        return
    a, b = two["rounds"][1], fresh["rounds"][0]
    if a != b:
        R.violation("relink-after-restore-sees-stale-module", "%s: after %s was stored again, a second link in the same process behaves differently from "
                    "a fresh process linking the new files: %s vs %s" % (label, lib, str(a)[:160], str(b)[:160]),
                    {"sources": {n: sp.layouts[n][0] for n in sp.layouts}, "library_v2": v2, "add_order": root_names})
    else:
        R.count("relink_rounds_agree")
        if two["rounds"][0] != a:
            R.count("relink_rounds_where_v2_changes_results")


def run_shard(tier, seed, shard, n, R):
    # directed: a diamond linked first, then a chain over the same library objects (and name variants)
    variants = [("lib", "mid"), ("m0", "m1"), ("pkg0/util", "pkg1/util"), ("color", "colors")]
    if shard < len(variants):
        rng0 = random.Random(seed)
        sp = gmod.directed_diamond(variants[shard])
        run_split(R, rng0, sp, "directed diamond %s" % (variants[shard],), tier, force_sequence=True)
    for j in range(BUDGET[tier]):
        s = (seed * 1000003 + shard) * 100000 + j
        rng = random.Random(s)
        sp = gmod.gen(rng)
        run_split(R, rng, sp, "split %d" % s, tier)
        if j == 0:
            R.sample({"modules": {n: sp.layouts[n][0] for n in sp.layouts}, "roots": [n for n, _, _, _ in sp.roots]})


def finalize(M, tier):
    out = []
    if M.counters.get("link_processes", 0) == 0:
        out.append("no link was attempted")
    if M.counters.get("calls_compared", 0) == 0 and not M.violations:
        out.append("no cross-module call result was compared")
    return out


def replay(case):
    tmp = tempfile.mkdtemp(prefix="nslverif_c16r_")
    try:
        texts = case["sources"]
        # compile in an order that respects imports: repeat until no progress
        pending = dict(texts)
        done = set()
        progress = True
        log = []
        while pending and progress:
            progress = False
            for n, t in list(pending.items()):
                with open(os.path.join(tmp, n + ".nsl"), "w") as f:
                    f.write(t)
                rc, out = runner.nslc(tmp, n + ".nsl", n + ".nslir")
                if rc == 0:
                    done.add(n)
                    del pending[n]
                    progress = True
                else:
                    log.append((n, rc, out[-150:]))
        if pending:
            return True, {"not_compiled": sorted(pending), "log": log[-3:]}
        if "add_order" not in case:
            return False, {}
        res = runner.helper("loadrun", {"cwd": tmp, "modules": [n + ".nslir" for n in case["add_order"]], "calls": case.get("calls", []), "listing_of": None})
        return bool(res.get("error")) or any(r["status"] != "ok" for r in res.get("results", [])), {"result": res}
    finally:
        shutil.rmtree(tmp, ignore_errors=True)
