"""C09 — operator typing: accepted operand combinations, result type, conversions.

Deciding monitors: (a) a contract on the real `nsl.types.ResolveBinaryExpressionType` judged
against the spec table (ref/typing.py) on the complete internal universe (13 x 63 x 63 triples);
(b) end to end for the 13 x 14 x 14 spellable triples: front-end gate outcome, type of the
expression after `compute-types` and operand types after `add-implicit-casts`, read from the real
AST at the pass boundary; the contract stays installed during (b) as well.
"""
import itertools

from .. import nslapi, diff
from ..lang import type_str
from ..mon import contracts, vmobs
from ..ref import typing as tspec
from ..gen import core as gcore
import random

PROPERTY = "C09"
TECHNIQUE = "contract on the real typing function + pass-boundary AST probe, against an independent spec table, exhaustive"
LEVEL_TEXT = ("Exhaustive over the stated finite domain: all 51 597 (operator, left, right) triples of the internal type universe "
              "at the typing interface (post-condition contract on the real function) and all 2 548 spellable triples end to end "
              "(accept/reject at the front-end gate, result type, inserted operand conversions). Nested expressions `(a op b) op c` / `a op (b op c)` over all scalar "
              "type triples x all operator pairs plus a seeded sample over all spellable types: a probe on the real tree judges the operand "
              "types after implicit conversion at every operator node.")
LEVEL_NOTE = ("Trusted: the spec table nslverif/ref/typing.py transcribed from the property statement. Matrix-vs-matrix comparison is "
              "undefined by the statement and skipped; the operands of a comparison must be brought to their common type; a one-column product may "
              "be a vector or an n x 1 matrix. Rejected = the call raised (interface) / the front end did not pass the gate (end to end).")
RULE = ("every (op, L, R) triple is one case (distinct by construction); non-trivial = the spec is not 'undefined'. "
        "Interface: 13 x 63 x 63; end to end: 13 x 14 x 14 programs `export function f(L a, R b) -> T { return a OP b; }`.")
ASSUMPTIONS = ["spec table = the statement of C09", "execution of accepted end-to-end programs is evidence only (C05 judges it)"]
SHARD_TIMEOUT = {"quick": 900, "thorough": 1800}


def shards(tier):
    return 16


def sclass(t):
    if t is None:
        return "nonprim"
    if isinstance(t, str):
        return "scalar"
    if t[0] == "vec":
        return "vec1" if t[2] == 1 else "vec"
    if t[0] == "mat":
        if t[3] == 1:
            return "matNx1"
        if t[2] == 1:
            return "mat1xN"
        return "mat"
    return "?"


def finding_key(prefix, f):
    extra = ""
    L, R = f.get("Lt"), f.get("Rt")
    if f["kind"] in ("accepted-undefined-combination", "rejected-defined-combination") and L is not None and R is not None \
            and not isinstance(L, str) and not isinstance(R, str):
        # same kinds of operands: say whether the shapes agree
        if L[0] == R[0]:
            extra = ":same-shape" if L[2:] == R[2:] else ":different-shape"
        else:
            lr, lc = tspec.rows_cols(L)
            rr, rc = tspec.rows_cols(R)
            extra = ":inner-agree" if lc == rr else ":inner-differ"
    return "%s:%s:%s:%s:%s%s" % (prefix, f["kind"], f["op"], sclass(L), sclass(R), extra)


def run_interface(R, shard, n):
    rec = contracts.TypingRecorder()
    contracts.install_typing(rec)
    U = tspec.universe()
    i = 0
    for op in tspec.OPS:
        rop = contracts.real_op(op)
        for L in U:
            for Rr in U:
                i += 1
                if i % n != shard:
                    continue
                R.evaluations += 1
                try:
                    nslapi.nsl.types.ResolveBinaryExpressionType(rop, contracts.real_type(L), contracts.real_type(Rr))
                except Exception:
                    pass
                if tspec.spec(op, L, Rr)[0] != tspec.UNDEFINED:
                    R.nontriv("iface", op, L, Rr)
    # non-primitive operands must be rejected
    if shard == 0:
        T = nslapi.nsl.types
        nonprim = [T.ArrayType(T.Float(), [3]), T.StructType("S", {}), T.Void()]
        for op in tspec.OPS:
            for a in nonprim:
                for b in [T.Float(), T.VectorType(T.Float(), 3)] + nonprim:
                    for l, r in ((a, b), (b, a)):
                        R.evaluations += 1
                        try:
                            T.ResolveBinaryExpressionType(contracts.real_op(op), l, r)
                        except Exception:
                            pass
    R.count("contract_evaluations_interface", rec.evaluations)
    R.count("contract_judged", rec.judged)
    R.count("contract_undefined_skipped", rec.undefined)
    for f in rec.findings:
        R.violation(finding_key("iface", f), "ResolveBinaryExpressionType(%s, %s, %s): expected %s, observed %s"
                    % (f["op"], f["L"], f["R"], f["expected"], f["observed"]),
                    {"mode": "interface", "op": f["op"], "L": f["Lt"], "R": f["Rt"], "expected": f["expected"],
                     "observed": f["observed"], "kind": f["kind"]})
    return rec


def e2e_source(op, L, Rr, T):
    return "export function f (%s a, %s b) -> %s {\n  return a %s b;\n}\n" % (type_str(L), type_str(Rr), type_str(T), op)


def probe_e2e(op, L, Rr):
    """compile one end-to-end program; returns (outcome, observed) where observed has gate, result type, operand types"""
    s = tspec.spec(op, L, Rr)
    if s[0] == tspec.OK:
        T = s[1]
        if isinstance(T, tuple) and T[0] == "col":
            T = ("vec", T[1], T[2])
    else:
        T = "float"
    src = e2e_source(op, L, Rr, T)
    seen = {}

    def listener(kind, name, root, inner):
        if kind != "AST":
            return
        try:
            if name == "compute-types":
                e = root.GetFunctions()[-1].GetBody().GetStatements()[-1].GetExpression()
                seen["result"] = contracts.my_type(e.GetType())
            elif name == "add-implicit-casts":
                e = root.GetFunctions()[-1].GetBody().GetStatements()[-1].GetExpression()
                seen["left"] = contracts.my_type(e.GetLeft().GetType())
                seen["right"] = contracts.my_type(e.GetRight().GetType())
                seen["left_cast"] = type(e.GetLeft()).__name__ == "CastExpression"
                seen["right_cast"] = type(e.GetRight()).__name__ == "CastExpression"
        except Exception as ex:
            seen["probe_error"] = "%s: %s" % (type(ex).__name__, ex)

    out = nslapi.compile_source(src, listener=listener)
    return src, s, out, seen


def run_e2e(R, shard, n, obs):
    S = tspec.spellable()
    i = 0
    for op in tspec.OPS:
        for L in S:
            for Rr in S:
                i += 1
                if i % n != shard:
                    continue
                R.evaluations += 1
                R.count("e2e_programs")
                src, s, out, seen = probe_e2e(op, L, Rr)
                f = {"op": op, "L": tspec.tstr(L), "R": tspec.tstr(Rr), "Lt": L, "Rt": Rr}
                rep = {"mode": "e2e", "sources": {"main": src}, "op": op, "L": L, "R": Rr, "spec": list(map(str, s)),
                       "gate": out.gate, "reject": out.reject, "seen": {k: str(v) for k, v in seen.items()}}
                if s[0] == tspec.UNDEFINED:
                    R.count("e2e_undefined_skipped")
                    continue
                R.nontriv("e2e", op, L, Rr)
                if "probe_error" in seen:
                    R.inconclusive.append("AST probe failed: " + seen["probe_error"])
                    continue
                if s[0] == tspec.REJECT:
                    if out.accepted:
                        f["kind"] = "accepted-undefined-combination"
                        R.violation(finding_key("e2e", f), "%s %s %s is accepted by the front end (typed %s); the language defines no such combination"
                                    % (f["L"], op, f["R"], tspec.tstr(seen.get("result"))), rep)
                    else:
                        R.count("e2e_rejected_as_specified")
                    continue
                if not out.accepted:
                    f["kind"] = "rejected-defined-combination"
                    R.violation(finding_key("e2e", f), "%s %s %s is rejected (%s: %s %s); defined with result %s"
                                % (f["L"], op, f["R"], out.reject["name"], out.reject["cls"], out.reject["msg"][:60], tspec.tstr(s[1])), rep)
                    continue
                R.count("e2e_accepted_as_specified")
                if not tspec.matches(s[1], seen.get("result")):
                    f["kind"] = "wrong-result-type"
                    R.violation(finding_key("e2e", f), "%s %s %s typed %s, defined result %s"
                                % (f["L"], op, f["R"], tspec.tstr(seen.get("result")), tspec.tstr(s[1])), rep)
                    continue
                if s[2] is not None and "left" in seen:
                    if not (tspec.matches(s[2], seen["left"]) and tspec.matches(s[3], seen["right"])):
                        f["kind"] = "wrong-operand-conversion"
                        R.violation(finding_key("e2e", f), "%s %s %s: operands after implicit casts are %s, %s; defined %s, %s"
                                    % (f["L"], op, f["R"], tspec.tstr(seen["left"]), tspec.tstr(seen["right"]),
                                       tspec.tstr(s[2]), tspec.tstr(s[3])), rep)
                        continue
                    R.count("e2e_conversions_checked")
                # usability (evidence only): link and run once
                if out.usable:
                    try:
                        with nslapi.quiet():
                            prog = nslapi.link([out.ir])
                        rng = random.Random(i)
                        args = {"a": gcore.rand_value(rng, L, None), "b": _nonzero(gcore.rand_value(rng, Rr, None))}
                        vm = nslapi.make_vm(prog)
                        vm.Invoke("f", **args)
                        R.count("e2e_executed_ok")
                    except ZeroDivisionError:
                        R.count("e2e_executed_divzero")
                    except Exception as e:
                        R.count("e2e_executed_failed(C05 territory)")
                        R.add_to("e2e_exec_failures", "%s %s %s: %s" % (f["L"], op, f["R"], type(e).__name__))
                else:
                    R.count("e2e_lowering_failed(C05 territory)")
                if i % 293 == shard:
                    R.sample({"source": src, "spec": [tspec.tstr(x) if x != "ok" else x for x in s],
                              "observed": {k: tspec.tstr(v) if not isinstance(v, bool) else v for k, v in seen.items()}})


def _vecify(T):
    return ("vec", T[1], T[2]) if isinstance(T, tuple) and T[0] == "col" else T


def nested_candidates(seed, tier):
    """(shape, op1, op2, A, B, C): all scalar type triples x all operator pairs x both nestings, plus a seeded sample over
    all spellable types"""
    S = tspec.spellable()
    sc = [t for t in S if isinstance(t, str)]
    for A in sc:
        for B in sc:
            for C in sc:
                for op1 in tspec.OPS:
                    for op2 in tspec.OPS:
                        yield ("left", op1, op2, A, B, C)
                        yield ("right", op1, op2, A, B, C)
    rng = random.Random(seed * 31 + 5)
    for _ in range(6000 if tier == "quick" else 120000):
        yield (rng.choice(["left", "right"]), rng.choice(tspec.OPS), rng.choice(tspec.OPS), rng.choice(S), rng.choice(S), rng.choice(S))


def run_nested(R, shard, n, seed, tier):
    """`(a op1 b) op2 c` and `a op2 (b op1 c)`: the conversion probe judges every operator node of the real tree at the
    add-implicit-casts boundary"""
    from ..mon import convprobe
    for i, (shape_, op1, op2, A, B, C) in enumerate(nested_candidates(seed, tier)):
        if i % n != shard:
            continue
        if shape_ == "left":
            s1 = tspec.spec(op1, A, B)
            if s1[0] != tspec.OK:
                continue
            s2 = tspec.spec(op2, _vecify(s1[1]), C)
            text = "(a %s b) %s c" % (op1, op2)
        else:
            s1 = tspec.spec(op1, B, C)
            if s1[0] != tspec.OK:
                continue
            s2 = tspec.spec(op2, A, _vecify(s1[1]))
            text = "a %s (b %s c)" % (op2, op1)
        if s2[0] != tspec.OK:
            continue
        T = _vecify(s2[1])
        src = "export function f (%s a, %s b, %s c) -> %s {\n  return %s;\n}\n" % (type_str(A), type_str(B), type_str(C), type_str(T), text)
        findings, counters = [], {}

        def listener(kind, name, root, inner):
            if kind == "AST" and name == "add-implicit-casts":
                convprobe.binary_conversions(root, findings, counters)

        out = nslapi.compile_source(src, listener=listener)
        R.evaluations += 1
        R.count("nested_programs")
        if not out.accepted:
            # (acceptance of each single combination is judged by the end-to-end sweep; a nesting of two defined
            # combinations that is rejected is reported here)
            R.violation("nested:rejected:%s:%s" % (sclass(A) + sclass(B) + sclass(C), shape_),
                        "%s with %s a, %s b, %s c is rejected (%s: %s); both operators are defined for these operand types"
                        % (text, tspec.tstr(A), tspec.tstr(B), tspec.tstr(C), out.reject["name"], out.reject["msg"][:60]),
                        {"mode": "nested", "sources": {"main": src}})
            continue
        for k_, v in counters.items():
            if isinstance(v, int):
                R.count("nested_" + k_, v)
        if counters.get("probe_errors"):
            R.inconclusive.append("conversion probe failed: %s" % counters.get("last_probe_error"))
            continue
        if counters.get("nested_nodes", 0):
            R.nontriv("nested", src)
        for (op, L0, R0, L1, R1, eL, eR, nest) in findings:
            R.violation("nested:wrong-operand-conversion:%s:%s" % ("inner" if nest else "outer", shape_),
                        "%s (%s a, %s b, %s c): operator %s at nesting depth %d has operands %s, %s after implicit casts (written %s, %s); defined %s, %s"
                        % (text, tspec.tstr(A), tspec.tstr(B), tspec.tstr(C), op, nest, tspec.tstr(L1), tspec.tstr(R1), tspec.tstr(L0), tspec.tstr(R0),
                           tspec.tstr(eL), tspec.tstr(eR)), {"mode": "nested", "sources": {"main": src}})
            break


def _nonzero(v):
    if isinstance(v, list):
        return [_nonzero(x) for x in v]
    if v == 0:
        return 1 if isinstance(v, int) else 1.0
    return v


def run_shard(tier, seed, shard, n, R):
    rec = run_interface(R, shard, n)
    before = rec.evaluations
    findings_before = len(rec.findings)
    obs = vmobs.Observer()
    run_e2e(R, shard, n, obs)
    run_nested(R, shard, n, seed, tier)
    R.count("contract_evaluations_e2e", rec.evaluations - before)
    # contract findings raised during the e2e compiles that the interface sweep did not already have
    for f in rec.findings[findings_before:]:
        R.violation(finding_key("iface", f), "during compilation: ResolveBinaryExpressionType(%s, %s, %s): expected %s, observed %s"
                    % (f["op"], f["L"], f["R"], f["expected"], f["observed"]),
                    {"mode": "interface", "op": f["op"], "L": f["Lt"], "R": f["Rt"], "expected": f["expected"],
                     "observed": f["observed"], "kind": f["kind"]})
    R.flags["interface_51597_triples"] = True
    R.flags["e2e_2548_triples"] = True


def finalize(M, tier):
    out = []
    if M.counters.get("contract_evaluations_interface", 0) < 51597:
        out.append("typing contract evaluated only %d times at the interface" % M.counters.get("contract_evaluations_interface", 0))
    if M.counters.get("contract_evaluations_e2e", 0) == 0:
        out.append("the typing contract was never reached from a real compilation (rebinding ineffective?)")
    if M.counters.get("e2e_programs", 0) < 2548:
        out.append("end-to-end enumeration incomplete")
    return out


EXHAUSTIVE_ONLY = True


def replay(case):
    if case.get("mode") == "interface":
        rec = contracts.TypingRecorder()
        contracts.install_typing(rec)
        L, Rr = _tt(case["L"]), _tt(case["R"])
        if L is None or Rr is None:
            return False, {"note": "non-primitive operand case: re-run the check"}
        try:
            nslapi.nsl.types.ResolveBinaryExpressionType(contracts.real_op(case["op"]), contracts.real_type(L), contracts.real_type(Rr))
        except Exception:
            pass
        return bool(rec.findings), {"findings": [{k: str(v) for k, v in f.items()} for f in rec.findings]}
    if case.get("mode") == "nested":
        from ..mon import convprobe
        findings, counters = [], {}

        def listener(kind, name, root, inner):
            if kind == "AST" and name == "add-implicit-casts":
                convprobe.binary_conversions(root, findings, counters)

        out = nslapi.compile_source(case["sources"]["main"], listener=listener)
        return (not out.accepted) or bool(findings), {"accepted": out.accepted, "findings": [str(f) for f in findings], "counters": counters}
    L, Rr = _tt(case["L"]), _tt(case["R"])
    src, s, out, seen = probe_e2e(case["op"], L, Rr)
    bad = False
    if s[0] == tspec.REJECT:
        bad = out.accepted
    elif s[0] == tspec.OK:
        bad = (not out.accepted) or not tspec.matches(s[1], seen.get("result")) or \
            (s[2] is not None and not (tspec.matches(s[2], seen.get("left")) and tspec.matches(s[3], seen.get("right"))))
    return bad, {"gate": out.gate, "reject": out.reject, "seen": {k: str(v) for k, v in seen.items()}, "spec": str(s)}


def _tt(x):
    if isinstance(x, list):
        return tuple(x)
    return x
