"""C04 — vectors and matrices are values: component ops, swizzles, copies.

Deciding monitor: differential execution (real compiler + VM under the step observer vs RefSem on
the generator's tree, list-valued) over complete enumerations of swizzle masks, operators, indices
and copy patterns, plus seeded random vector/matrix programs.
"""
import random

from .. import diff
from ..gen import vec as gvec, vecdirected, core as gcore
from ..lang import print_module
from ..mon import vmobs

PROPERTY = "C04"
TECHNIQUE = "differential runtime monitoring (VM under step observer vs reference interpreter) over enumerated masks/operators/indices/copy patterns + random vector programs"
LEVEL_TEXT = ("Complete in both tiers: all 980 read masks and 166 non-repeating write masks x {float,int} x source kinds, every listed "
              "operator x vector size x component type (incl. mixed components), matrix + - * (matrix), * / (scalar, incl. divisors with inexact reciprocals), the compound forms op= of these, matrix * vector, "
              "row/element read and write for every constant and every dynamic index, nested write chains (m[i][j], arr[i].xz, "
              "s.v.y, globals), copy independence for 8 storage pairs x 2 directions x every write form; plus seeded random programs. "
              "Each execution on the real VM is compared component-wise with the reference interpreter.")
LEVEL_NOTE = ("Trusted: reference interpreter (value semantics: every read of a vector/matrix copies), printer. Floats are compared exactly (both sides evaluate every written operation in double precision), "
              "within 1e-9 relative only when a matrix product was evaluated (the order of its additions is not written in the source); cases leaving the numeric domain are dropped. Programs the compiler rejects count as violations for the "
              "directed families (they are well-typed by C09) and are skipped for random programs.")
RULE = ("case = (source, function, inputs); non-trivial when the VM executed >= 1 of SHUFFLE, VECTOR_*, MATRIX_*, CONSTRUCT_PRIMITIVE "
        "and the oracle compared the value; distinct by (source, function, inputs).")
ASSUMPTIONS = ["RefSem = source semantics of vectors and matrices as spelled out in C04", "component values are distinct so permutations show"]
SHARD_TIMEOUT = {"quick": 900, "thorough": 5400}
BUDGET = {"quick": 150, "thorough": 5000}
VEC_OPS_PREFIX = ("VECTOR_", "MATRIX_")


def shards(tier):
    return 16


def touched_vector_ops(ops):
    return any(o == "SHUFFLE" or o == "CONSTRUCT_PRIMITIVE" or o.startswith(VEC_OPS_PREFIX) for o in ops)


def account(R, res, calls):
    if not res["runnable"]:
        return
    flat = [(fn, a, g) for fn, ins in calls for a, g in ins]
    for (fn, a, g), (ref, vm) in zip(flat, res["runs"]):
        if vm is not None and ref.status == "ok" and touched_vector_ops(vm.ops):
            R.nontriv(res["source"], fn, a, g)


def run_shard(tier, seed, shard, n, R):
    obs = vmobs.Observer()
    cases = vecdirected.all_cases()
    R.flags["directed_enumerations_complete"] = True
    for i, (fam, module, calls) in enumerate(cases):
        if i % n != shard:
            continue
        res = diff.check_program(R, obs, fam, module, calls, None, fam.split(":")[0] if not fam.startswith("copy") else fam)
        account(R, res, calls)
        R.count("directed_modules")
        R.count("directed_functions", len(calls))
        if i % 53 == shard:
            R.sample({"family": fam, "source": print_module(module)[:1500], "first_call": [calls[0][0], calls[0][1][:1]]})
    for j in range(BUDGET[tier]):
        s = (seed * 1000003 + shard) * 100000 + j
        rng = random.Random(s)
        g = gvec.VecGen(rng)
        try:
            module = g.gen_module()
        except RecursionError:
            continue
        f = module.funcs[-1]
        inputs = gcore.gen_inputs(rng, module, f, 3)
        calls = [(f.name, inputs)]
        res = diff.check_program(R, obs, "random:%d" % s, module, calls, None, "random", require_accept=True)
        account(R, res, calls)
        R.count("random_programs")
        if j == 0:
            R.sample({"family": "random", "seed": s, "source": print_module(module)})


def finalize(M, tier):
    out = []
    if M.counters.get("vm_runs", 0) == 0:
        out.append("no VM run was compared")
    if M.counters.get("directed_modules", 0) == 0:
        out.append("directed families did not run")
    return out


def replay(case):
    return diff.replay_program(case)
