"""C02 — optimisation never changes observable behaviour.

Deciding monitor: O0/O1 twin execution.  Each source is compiled by the real compiler with
optimisation off and on (pass boundaries recorded: which passes ran, how many instructions each
removed, both final listings); both modules are linked and run on the real VM on the same inputs
under the step observer.  The oracle is the unoptimised run itself.
"""
import random

from .. import diff, nslapi
from ..driver import time_limit, CaseTimeout
from ..gen import core as gcore, vec as gvec, calls as gcalls, fwdtemplates, directed, vecdirected
from ..lang import print_module
from ..mon import vmobs, passes
from ..ref import sem

PROPERTY = "C02"
TECHNIQUE = "O0/O1 twin compilation and execution on the real VM under the step observer (def-before-use), pass-boundary recorder for non-triviality"
LEVEL_TEXT = ("Every program of the workload is compiled twice (optimize off / on) by the real compiler; accept/reject must agree; both "
              "modules are run on the VM on the same inputs and must return equal values and leave equal globals (or fail with the "
              "same defined failure); the optimised run must not read an undefined IR value (observer). Workload: the complete "
              "forwarding-template family (store->load pair in front of every consumer kind x scope x type), all directed families of "
              "C01/C04, and seeded random scalar, vector and call-graph programs.")
LEVEL_NOTE = ("Trusted: the unoptimised run as the oracle (C01/C04 judge it against source semantics); exact value comparison (an "
              "int-valued float equals the int). Programs whose *unoptimised* build fails internally are skipped here (C05 judges them).")
RULE = ("case = (source, function, inputs); non-trivial when the O1 listing differs from the O0 listing (an optimisation pass "
        "changed the IR) and both were executed; distinct by (source, inputs).")
ASSUMPTIONS = ["O0 behaviour is the reference", "inputs are type-correct values"]
SHARD_TIMEOUT = {"quick": 900, "thorough": 5400}
BUDGET = {"quick": 150, "thorough": 2500}
DEFINED = ("ZeroDivisionError", "IndexError")


def same(a, b):
    """exact equality of observable values; NaN equals NaN"""
    if isinstance(a, list) and isinstance(b, list):
        return len(a) == len(b) and all(same(x, y) for x, y in zip(a, b))
    if isinstance(a, dict) and isinstance(b, dict):
        return set(a) == set(b) and all(same(a[k], b[k]) for k in a)
    if isinstance(a, float) and isinstance(b, float) and a != a and b != b:
        return True
    return sem.values_equal(a, b, 0.0)


def shards(tier):
    return 16


def twin(R, obs, name, src, calls, family, module=None, in_rng=None):
    """one source under a wall-clock allowance (a program may square integers in a loop: bignum arithmetic far below
    the step budget; that is resource exhaustion, dropped and counted)"""
    try:
        with time_limit(30):
            _twin(R, obs, name, src, calls, family, module, in_rng)
    except CaseTimeout:
        nslapi.VM._VERIF_OBSERVER = None
        R.count("dropped_case_timeout")


def _twin(R, obs, name, src, calls, family, module=None, in_rng=None):
    """calls: [(fname, [(args, globals)])]"""
    rec0, rec1 = passes.BoundaryRecorder(check=False, keep_listings=True), passes.BoundaryRecorder(check=False, keep_listings=True)
    c0 = diff.Compiled(src, optimize=False, listener=rec0)
    c1 = diff.Compiled(src, optimize=True, listener=rec1)
    R.count("programs")
    if c0.out.gate != c1.out.gate:
        R.violation("gate-differs:%s" % family, "%s: front-end decision differs between optimisation settings (%s vs %s)" % (name, c0.out.gate, c1.out.gate),
                    {"sources": {"main": src}, "case": name})
        return
    if not c0.out.accepted:
        R.count("rejected_both")
        return
    if not c0.runnable:
        R.count("skipped_O0_internal_failure")
        return
    if not c1.runnable:
        exc = c1.out.post_exc or c1.link_exc
        R.violation("O1-compile-fails:%s:%s:%s" % (exc.get("stage", "link"), exc["cls"], exc.get("where")),
                    "%s: optimised compilation fails (%s: %s) where the unoptimised one succeeds" % (name, exc["cls"], exc["msg"][:80]),
                    {"sources": {"main": src}, "case": name, "exc": exc})
        return
    if calls is None:
        # whole-language candidates: inputs from the declared types read off the compiled module
        from . import c05
        calls = []
        try:
            gtypes = dict(c0.program.Globals)
            for fname in [n for n in c0.out.ir.Functions if not n.startswith("@")][:4]:
                fn = c0.out.ir.Functions[fname]
                ins = []
                for _ in range(2):
                    ins.append(({n: c05.value_ir(t, in_rng) for n, t in fn.Type.Arguments.items()},
                                {n: c05.value_ast(t, in_rng) for n, t in gtypes.items()}))
                calls.append((fname, ins))
        except nslapi.Harness:
            R.count("skipped_unbuildable_input")
            return
    l0 = rec0.listings[-1][1] if rec0.listings else ""
    l1 = rec1.listings[-1][1] if rec1.listings else ""
    changed = l0 != l1
    if changed:
        R.count("programs_changed_by_optimisation")
        for pname, k in rec1.removed_by().items():
            if k:
                R.count("instructions_removed_by:" + pname, k)
    for fname, inputs in calls:
        for args, gl in inputs:
            R.evaluations += 1
            v0 = diff.run_vm(c0, fname, args, gl, obs, 400000)
            if v0.status == "nonterminating":
                R.count("skipped_O0_nonterminating")
                continue
            if v0.status == "exception" and v0.exc["cls"] not in DEFINED:
                R.count("skipped_O0_internal_failure_at_runtime")
                continue
            if any(e["kind"] in diff.UNDEF_EVENTS for e in v0.events):
                R.count("skipped_O0_reads_undefined")
                continue
            v1 = diff.run_vm(c1, fname, args, gl, obs, 50 * v0.steps + 10000)
            R.count("twin_runs")
            bad = None
            if v0.status == "exception":
                if v1.status != "exception" or v1.exc["cls"] != v0.exc["cls"]:
                    bad = "O0 fails with %s, O1 %s" % (v0.exc["cls"], "returns %r" % (v1.value,) if v1.status == "ok" else v1.status + " " + str(v1.exc))
            elif v1.status == "nonterminating":
                bad = "O1 does not terminate (O0 took %d instructions)" % v0.steps
            elif v1.status == "exception":
                bad = "O1 raises %s (%s) at %s where O0 returns %r" % (v1.exc["cls"], v1.exc["msg"][:60], v1.where, v0.value)
            elif not same(v0.value, v1.value):
                bad = "O1 returns %r, O0 returns %r" % (v1.value, v0.value)
            else:
                for g in gl:
                    if not same(v0.globals.get(g), v1.globals.get(g)):
                        bad = "global %s: O1 leaves %r, O0 leaves %r" % (g, v1.globals.get(g), v0.globals.get(g))
                        break
            if bad is None:
                for e in v1.events:
                    if e["kind"] in diff.UNDEF_EVENTS:
                        bad = "O1 reads an undefined value: %s" % e
                        break
            if bad is not None:
                if v1.status == "exception":
                    key = "O1-exception:%s:%s:%s" % (family, v1.exc["cls"], v1.sig)
                elif "undefined" in bad:
                    key = "O1-undefined-read:%s" % family
                elif v1.status == "ok" and v1.value is None and v0.value is not None:
                    key = "O1-returns-nothing:%s" % family
                else:
                    key = "O1-differs:%s" % family
                R.violation(key, "%s: %s" % (name, bad),
                            {"sources": {"main": src}, "case": name, "function": fname, "inputs": {"args": args, "globals": gl},
                             "O0": {"status": v0.status, "value": v0.value, "globals": v0.globals},
                             "O1": {"status": v1.status, "value": v1.value, "globals": v1.globals, "exc": v1.exc, "events": v1.events},
                             "listing_O0": l0[-3000:], "listing_O1": l1[-3000:]})
            elif changed:
                R.nontriv(src, fname, args, gl)


def run_shard(tier, seed, shard, n, R):
    obs = vmobs.Observer()
    i = 0
    for name, module, fname, inputs in fwdtemplates.cases():
        i += 1
        if i % n != shard:
            continue
        twin(R, obs, name, print_module(module), [(fname, inputs)], name.rsplit(":", 1)[0] + ":" + name.split(":")[-1])
        R.count("template_cases")
        if i % 61 == shard:
            R.sample({"case": name, "source": print_module(module)})
    R.flags["forwarding_templates_complete"] = True
    for c in directed.all_cases():
        i += 1
        if i % n != shard:
            continue
        name, module, fname, inputs = c[:4]
        twin(R, obs, name, print_module(module), [(fname, inputs[:4])], "directed-scalar")
    for fam, module, calls in vecdirected.all_cases():
        i += 1
        if i % n != shard:
            continue
        twin(R, obs, fam, print_module(module), calls, "directed-vector")
    for name, module, calls in gcalls.directed_cases():
        i += 1
        if i % n != shard:
            continue
        twin(R, obs, name, print_module(module), calls, "directed-calls")
    R.flags["directed_families_of_C01_C03_C04"] = True
    from ..gen import whole
    from .. import bootstrap
    seeds = list(whole.SEEDS) + whole.repo_sources(bootstrap.repo_path())
    mrng = random.Random(seed * 4241 + shard)
    for j in range(BUDGET[tier] * 2):
        base = mrng.choice(seeds)
        src = base if j % 7 == 0 else whole.mutate(base, mrng, mrng.choice([1, 1, 2]))
        try:
            twin(R, obs, "mutant:%d:%d" % (shard, j), src, None, "whole-language", in_rng=mrng)
        except RecursionError:
            R.count("dropped_RecursionError")       # a mutant that recurses without bound: resource exhaustion, not judged
        R.count("whole_language_candidates")
    for j in range(BUDGET[tier]):
        s = (seed * 1000003 + shard) * 100000 + j
        rng = random.Random(s)
        kind = j % 3
        try:
            if kind == 0:
                module = gcore.CoreGen(rng, gcore.Cfg(max_stmts=rng.randint(3, 14))).gen_module()
            elif kind == 1:
                module = gvec.VecGen(rng).gen_module()
            else:
                module = gcalls.CallGen(rng).gen_module()
        except RecursionError:
            continue
        f = [x for x in module.funcs if x.exported][-1]
        inputs = gcore.gen_inputs(rng, module, f, 3)
        twin(R, obs, "random:%d" % s, print_module(module), [(f.name, inputs)], "random:%s" % ("core", "vec", "calls")[kind])
        R.count("random_programs")


def finalize(M, tier):
    out = []
    if M.counters.get("twin_runs", 0) == 0:
        out.append("no twin execution happened")
    if M.counters.get("programs_changed_by_optimisation", 0) == 0 and not M.violations:
        out.append("no program was changed by an optimisation pass: the optimiser was not exercised")
    return out


def replay(case):
    src = case["sources"]["main"]
    c0 = diff.Compiled(src, optimize=False)
    c1 = diff.Compiled(src, optimize=True)
    detail = {"gate0": c0.out.gate, "gate1": c1.out.gate, "post1": c1.out.post_exc}
    if c0.out.gate != c1.out.gate:
        return True, detail
    if c0.runnable and not c1.runnable:
        return True, detail
    if "inputs" not in case or not c0.runnable:
        return False, detail
    obs = vmobs.Observer()
    a, g = case["inputs"]["args"], case["inputs"]["globals"]
    v0 = diff.run_vm(c0, case["function"], a, g, obs, 2000000)
    v1 = diff.run_vm(c1, case["function"], a, g, obs, 2000000)
    detail.update({"O0": [v0.status, v0.value, v0.globals], "O1": [v1.status, v1.value, v1.globals, v1.exc], "events": v1.events})
    same = v0.status == v1.status and same(v0.value, v1.value) and \
        all(same(v0.globals.get(k), v1.globals.get(k)) for k in g)
    if v0.status == "exception" and v1.status == "exception":
        same = v0.exc["cls"] == v1.exc["cls"]
    undef = any(e["kind"] in diff.UNDEF_EVENTS for e in v1.events)
    return (not same) or undef, detail
