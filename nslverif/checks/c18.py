"""C18 — compilation is deterministic and independent of earlier compilations.

Deciding monitor: digest comparison.  SHA-256 of the IR listing and of the WebAssembly bytes (or of
the outcome when no module/bytes are produced) for (source, options) under: two fresh compiler objects
in one process; the same after compiling other sources in between (accepted, rejected midway and
crashing ones); fresh processes started with PYTHONHASHSEED 0 / 1 / 2 / random, with and without a
compilation history; the parser-table file present, absent and stale in a scratch copy of the package;
an audit hook logs the files opened while the target compiles.
"""
import hashlib
import os
import random
import shutil
import tempfile

from .. import nslapi, bootstrap
from ..gen import core as gcore, vec as gvec, calls as gcalls, modules as gmod, whole, state as gstate
from ..lang import print_module
from ..procs import runner, digest as pdigest

PROPERTY = "C18"
TECHNIQUE = "digest comparison of IR listing and wasm bytes across fresh compiler objects, compilation histories, processes with different hash seeds and parser-table states; audit-hook file log"
LEVEL_TEXT = ("For seeded random programs of every generator (incl. modules with imports and whole-language mutants that are rejected "
              "or crash midway) the digests of the IR listing and of the emitted wasm bytes are computed (1) twice in this process "
              "with fresh compiler objects, (2) again after 1-20 other compilations, (3) in fresh processes with PYTHONHASHSEED "
              "0, 1, 2 and random, with and without a history, (4) thorough: with PLY's parsetab.py present, absent and stale in a "
              "scratch copy of the package, (5) for a source with an import: compiled twice in this process with the library compiled and "
              "stored again (other signature) in between, against a fresh process. All digests of one (source, options, files on disk) must be equal.")
LEVEL_NOTE = ("Trusted: SHA-256 of the repository's InstructionPrinter text and of WriteTo bytes. When no module or no bytes are "
              "produced the outcome class (gate, exception class) takes the digest's place and must be equally stable. Python "
              "version and platform cannot be varied here.")
RULE = ("case = (source, options, variation); non-trivial for every variation other than 'same process, nothing before'; distinct by "
        "(source, options, variation).")
ASSUMPTIONS = ["first observation is the reference"]
SHARD_TIMEOUT = {"quick": 1200, "thorough": 7200}
BUDGET = {"quick": 8, "thorough": 110}


def shards(tier):
    return 16


def make_source(rng, j):
    kind = j % 9            # (callers pass j + shard, so that every kind occurs in a quick run)
    if kind == 8:
        return rng.choice(UNNAMED), None
    if kind >= 6:
        # inside the wasm backend's subset: bytes are actually emitted (int and float temporaries mixed)
        from ..gen import wasmsub
        return print_module(wasmsub.WasmGen(rng, nfuncs=rng.randint(1, 5)).gen_module()), None
    if kind == 0:
        return print_module(gcore.CoreGen(rng, gcore.Cfg(max_stmts=rng.randint(3, 12))).gen_module()), None
    if kind == 1:
        return print_module(gvec.VecGen(rng).gen_module()), None
    if kind == 2:
        return print_module(gcalls.CallGen(rng).gen_module()), None
    if kind == 3:
        return print_module(gstate.gen_module(rng)), None
    if kind == 4:
        return whole.mutate(rng.choice(whole.SEEDS), rng), None
    sp = gmod.gen(rng)
    return None, sp


UNNAMED = [
    "export function f (int, float x) -> float {\n  return x * 2.0;\n}\n",
    "function h (float, float, int k) -> int {\n  return k + 1;\n}\nexport function f (int a) -> int {\n  return h(1.0, 2.0, a);\n}\n",
    "export function f (float3, int) -> int {\n  return 7;\n}\nexport function g (int a, int) -> int {\n  return a;\n}\n",
]


def clash_source(rng, target):
    """a program whose *globals*, struct and functions are named like the locals, parameters, structs and functions of the
    target: whatever one compilation leaves behind by name must not reach the next one"""
    import re
    ids = sorted(set(re.findall(r"\b(?:int|float|uint|float[234]|int[234]|float[34]x[34])\s+([A-Za-z_]\w*)", target)))
    rng.shuffle(ids)
    lines = []
    structs = sorted(set(re.findall(r"\bstruct\s+([A-Za-z_]\w*)", target)))
    for sname in structs[:2]:
        lines.append("struct %s {\n  int zzq;\n  float3 zzw;\n}" % sname)
    for n_ in ids[:8]:
        lines.append("%s %s;" % (rng.choice(["int", "float", "float3", "int[3]"]), n_))
    fnames = sorted(set(re.findall(r"\bfunction\s+([A-Za-z_]\w*)", target)))
    for fnm in fnames[:3]:
        lines.append("function %s (float4 q_, int r_) -> float4 {\n  return q_ * r_;\n}" % fnm)
    lines.append("export function clash_main (int a_) -> int {\n  return a_;\n}")
    return "\n".join(lines) + "\n"


def history_sources(rng, k):
    out = []
    for _ in range(k):
        r = rng.random()
        if r < 0.4:
            out.append(whole.mutate(rng.choice(whole.SEEDS), rng, rng.randint(1, 4)))      # often rejected midway
        elif r < 0.7:
            out.append(print_module(gcore.CoreGen(rng, gcore.Cfg(max_stmts=6)).gen_module()))
        else:
            out.append(print_module(gvec.VecGen(rng).gen_module()))
    return out


def compare(R, ref, got, variation, src, opt):
    R.evaluations += 1
    for part in ("ir", "wasm"):
        if got.get(part) != ref.get(part):
            R.violation("nondeterministic:%s:%s" % (part, variation.split("=")[0]),
                        "%s of the same source and options differs under variation %s: %s vs %s" % (part, variation, ref.get(part), got.get(part)),
                        {"sources": {"main": src}, "optimize": opt, "variation": variation, "reference": ref, "observed": got})
            return False
    R.nontriv(src, opt, variation)
    R.add_to("variations", variation.split("=")[0])
    return True


def check_source(R, rng, src, opt, cwd, tier, scratch_repo=None):
    old = os.getcwd()
    if cwd:
        os.chdir(cwd)
    try:
        ref = pdigest.digest_of(src, opt)
        R.evaluations += 1
        R.count("targets")
        R.add_to("outcome_kinds", "ir:%s wasm:%s" % ("digest" if len(ref["ir"]) == 64 else ref["ir"], "digest" if len(ref["wasm"]) == 64 else ref["wasm"]))
        compare(R, ref, pdigest.digest_of(src, opt), "fresh-compiler-same-process", src, opt)
        hist = history_sources(rng, rng.randint(1, 20 if tier == "thorough" else 6))
        hist.insert(rng.randrange(len(hist) + 1), clash_source(rng, src))
        for h in hist:
            try:
                pdigest.digest_of(h, opt)
            except BaseException:
                pass
        compare(R, ref, pdigest.digest_of(src, opt), "after-history-same-process=%d" % len(hist), src, opt)
    finally:
        os.chdir(old)
    seeds = ["0", "1", "2", "random"] if tier == "thorough" else [rng.choice(["1", "2"]), "random"]
    for hs in seeds:
        with_hist = rng.random() < 0.5
        job = {"cwd": cwd, "history": hist[:5] if with_hist else [], "target": src, "optimize": opt, "audit": True}
        res = runner.helper("digest", job, hashseed=hs)
        R.count("digest_processes")
        if res.get("error"):
            R.inconclusive.append("digest helper failed: %s" % res["error"])
            continue
        compare(R, ref, res, "process-hashseed=%s%s" % (hs, "+history" if with_hist else ""), src, opt)
        for fn in res.get("opened_during_target", []):
            R.add_to("files_opened_while_compiling", fn)
    if scratch_repo is not None:
        for state in ("present", "absent", "stale"):
            tab = os.path.join(scratch_repo, "nsl", "parsetab.py")
            if state == "absent":
                if os.path.exists(tab):
                    os.remove(tab)
            elif state == "stale":
                with open(tab, "w") as f:
                    f.write("\n# parsetab.py\n_tabversion = '3.10'\n_lr_method = 'LALR'\n_lr_signature = 'stale'\n_lr_action_items = {}\n_lr_action = {}\n_lr_goto_items = {}\n_lr_goto = {}\n_lr_productions = []\n")
            res = runner.helper("digest_tables", {"cwd": cwd, "history": [], "target": src, "optimize": opt, "audit": False}, hashseed="0", repo=scratch_repo)
            R.count("digest_processes")
            if res.get("error"):
                R.inconclusive.append("digest helper (scratch package) failed: %s" % res["error"])
                continue
            compare(R, ref, res, "parser-tables=%s" % state, src, opt)


IMPORT_LIBS = [
    ("function scale (int x) -> int {\n  return x * 3;\n}\n", "function scale (float x) -> float {\n  return x * 0.5;\n}\n"),
    ("function scale (float x) -> float {\n  return x + 1.5;\n}\n", "function scale (int x) -> int {\n  return x + 2;\n}\nfunction other (int y) -> int {\n  return y;\n}\n"),
]


def import_history_case(R, tmp, variant):
    """a source that imports a library, compiled twice in ONE process with the library compiled and stored again (other
    signature) in between: the second compilation must give what a fresh process gives for the files as they are then"""
    import pickle
    d = os.path.join(tmp, "imp%d" % variant)
    os.makedirs(d, exist_ok=True)
    old = os.getcwd()
    os.chdir(d)
    try:
        libname = ("implib", "pkg/implib")[variant % 2]
        if os.path.dirname(libname):
            os.makedirs(os.path.dirname(libname), exist_ok=True)
        main = 'import "%s";\nexport function f (int a) -> float {\n  return scale(a) + 1;\n}\n' % libname
        v1, v2 = IMPORT_LIBS[(variant // 2) % len(IMPORT_LIBS)]
        for opt in (False, True):
            digests = []
            for text in (v1, v2):
                out = nslapi.compile_source(text, optimize=opt)
                if not out.usable:
                    R.inconclusive.append("import-history: the library does not compile")
                    return
                with open(libname + ".nslir", "wb") as f:
                    pickle.dump(out.ir, f)
                digests.append(pdigest.digest_of(main, opt))
            ref = runner.helper("digest", {"cwd": d, "history": [], "target": main, "optimize": opt, "audit": False})
            R.count("digest_processes")
            if ref.get("error"):
                R.inconclusive.append("digest helper failed: %s" % ref["error"])
                return
            R.count("import_history_cases")
            if digests[0] == digests[1]:
                R.count("import_history_cases_where_the_library_makes_no_difference")
            compare(R, ref, digests[1], "library-stored-again-same-process", main, opt)
    finally:
        os.chdir(old)


def run_shard(tier, seed, shard, n, R):
    tmp = tempfile.mkdtemp(prefix="nslverif_c18_")
    scratch = None
    try:
        if shard < 4:
            import_history_case(R, tmp, shard)
        if tier == "thorough" or shard == 0:
            scratch = os.path.join(tmp, "pkg")
            os.makedirs(scratch)
            shutil.copytree(os.path.join(bootstrap.repo_path(), "nsl"), os.path.join(scratch, "nsl"),
                            ignore=shutil.ignore_patterns("__pycache__", "parser.out"))
        for j in range(BUDGET[tier]):
            s = (seed * 1000003 + shard) * 100000 + j
            rng = random.Random(s)
            src, sp = make_source(rng, j + shard)
            cwd = None
            if sp is not None:
                cwd = os.path.join(tmp, "m%d" % j)
                os.makedirs(cwd)
                ok = True
                for name, fs, imps in sp.libs:
                    os.makedirs(os.path.dirname(os.path.join(cwd, name + ".nsl")), exist_ok=True)
                    with open(os.path.join(cwd, name + ".nsl"), "w") as f:
                        f.write(sp.layouts[name][0])
                    rc, out = runner.nslc(cwd, name + ".nsl", name + ".nslir")
                    ok = ok and rc == 0
                if not ok:
                    R.count("import_setup_failed")
                    continue
                src = sp.layouts[sp.roots[0][0]][0]
            opt = bool((j // 3 + shard) % 2)
            use_scratch = scratch if (scratch is not None and (tier == "thorough" and j % 10 == 0 or tier == "quick" and j == 0)) else None
            check_source(R, rng, src, opt, cwd, tier, use_scratch)
            if j == 0:
                R.sample({"source": src[:1000], "optimize": opt})
    finally:
        shutil.rmtree(tmp, ignore_errors=True)


def finalize(M, tier):
    out = []
    if M.counters.get("digest_processes", 0) == 0:
        out.append("no fresh-process digest was taken")
    vs = M.sets.get("variations", set())
    if not any(v.startswith("process-hashseed") for v in vs) and not M.violations:
        out.append("hash-seed variation not observed")
    return out


def replay(case):
    src = case["sources"]["main"]
    opt = bool(case.get("optimize"))
    a = pdigest.digest_of(src, opt)
    outs = [a, pdigest.digest_of(src, opt)]
    for hs in ("0", "1", "2", "random"):
        outs.append(runner.helper("digest", {"cwd": None, "history": [], "target": src, "optimize": opt, "audit": False}, hashseed=hs))
    bad = any(o.get("ir") != a["ir"] or o.get("wasm") != a["wasm"] for o in outs)
    return bad, {"digests": outs}
