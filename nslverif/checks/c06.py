"""C06 — the WebAssembly backend agrees with the VM or refuses.

Deciding monitor: emit -> independent WebAssembly engine (reference decoder/validator/interpreter)
vs the real VM on the same program and arguments.  A compilation or write that raises is a refusal
(fine).  Otherwise the bytes must validate and every exported function must return, for every input,
what the VM returns (ints exactly as signed 32-bit values, floats to single precision within a bound
relative to the intermediates).  Programs with constructs outside the backend's subset are part of the
workload: whatever is emitted for them is held to the same standard, which is how a silently dropped
construct shows.
"""
import math
import random

from .. import wasmrun, diff, nslapi
from ..gen import wasmsub, core as gcore, calls as gcalls
from ..lang import print_module, INT, FLOAT, VOID
from ..mon import vmobs
from ..ref import sem

PROPERTY = "C06"
TECHNIQUE = "differential execution: emitted bytes in an independent WebAssembly engine vs the real VM; refusals counted (inside the subset: judged); workload includes constructs outside the backend's subset"
LEVEL_TEXT = ("Seeded random straight-line scalar modules (the backend's subset: must agree), the directed outside-subset family "
              "(locals, stores to parameters, branches, loops, casts, calls, %, logic, <=, !=, compound assignment, int literals beyond the signed 32-bit range in comparisons and divisions) and random "
              "scalar-core programs (must agree or be refused), both optimisation settings, 6-10 inputs per function over i32 and "
              "f32 boundary values. Every emitted module is validated and executed in the reference engine and compared with the "
              "VM run of the same IR module.")
LEVEL_NOTE = ("Trusted: the reference WebAssembly engine (cross-checked against V8), the VM as the oracle of the IR module (C01 judges "
              "the VM against source semantics). Cases where the VM leaves the signed 32-bit range or produces non-finite floats are "
              "dropped; a trap where the VM raises ZeroDivisionError is agreement; float tolerance = 1e-5 * (1 + #float ops) * "
              "max(1, largest intermediate magnitude), and beyond it (cancellation) agreement with the reference interpreter "
              "evaluating the source at single precision.")
RULE = ("case = (source, setting, function, arguments); non-trivial when the module validated and the function executed >= 1 numeric "
        "instruction in the reference engine and a value was compared; refusals are counted separately; distinct by case.")
ASSUMPTIONS = ["inputs are f32-representable with |x| <= 1e6", "int division/remainder only inside C01's domain"]
SHARD_TIMEOUT = {"quick": 900, "thorough": 5400}
BUDGET = {"quick": 160, "thorough": 6000}
I32_MIN, I32_MAX = -(2 ** 31), 2 ** 31 - 1


def shards(tier):
    return 16


def vm_in_domain(v, ret=None):
    if v is None:
        return True
    if isinstance(v, bool):
        return True
    if isinstance(v, int):
        if ret == "uint":
            return 0 <= v <= 0xFFFFFFFF
        return I32_MIN <= v <= I32_MAX
    if isinstance(v, float):
        return v == v and abs(v) != math.inf and abs(v) < 3e38
    return False


def compare_values(vmv, wv, ret, ref):
    if ret == VOID or vmv is None:
        return None
    if wv is None:
        return "engine returned nothing, VM returned %r" % (vmv,)
    if isinstance(vmv, float) or isinstance(wv, float):
        a = sem.f32(float(vmv))
        tol = 1e-5 * (1 + (ref.float_ops if ref is not None else 8)) * max(1.0, ref.max_mag if ref is not None else abs(a))
        if abs(a - float(wv)) <= tol:
            return None
        return "engine returned %r, VM returned %r (f32 %r, tolerance %g)" % (wv, vmv, a, tol)
    if (int(vmv) - int(wv)) % (1 << 32) == 0:
        return None          # the same 32 bits (an unsigned result is read back as a signed number by the engine)
    return "engine returned %r, VM returned %r" % (wv, vmv)


def beyond_subset(module):
    """'mod' / 'constant-outside-32-bits' when the generated module uses what the backend does not translate, else None"""
    from ..lang import N, Bin, IntLit
    found = []

    def walk(n):
        if isinstance(n, Bin) and n.op == "%":
            found.append("mod")
        if isinstance(n, IntLit) and not (-2 ** 31 <= n.value < 2 ** 31):
            found.append("constant-outside-32-bits")
        if isinstance(n, list):
            for x in n:
                walk(x)
        elif isinstance(n, N):
            for k in n.__slots__:
                if k == "fn":
                    continue
                v = getattr(n, k)
                if isinstance(v, (N, list)):
                    walk(v)
    for f in module.funcs:
        walk(f.body)
    return found[0] if found else None


def check_module(R, obs, rng, name, module, family, must_be_supported):
    src = print_module(module)
    for opt in (False, True):
        e = wasmrun.emit(src, opt)
        R.count("compilations")
        if not e.out.accepted:
            R.count("rejected_by_front_end")
            return
        rep = {"sources": {"main": src}, "optimize": opt, "case": name}
        if e.refused:
            R.count("refused")
            R.add_to("refusal_reasons", "%s:%s:%s" % (family.split(":")[0], e.refusal.get("stage"), e.refusal["cls"]))
            if must_be_supported:
                R.count("refused_inside_subset")
                R.add_to("refused_inside_subset_reasons", "%s: %s" % (e.refusal["cls"], e.refusal["msg"][:60]))
                # the backend's subset, as built: scalar parameters, + - * /, == < >, int constants within 32 bits, float
                # constants, void and non-void results.  Programs of the subset "must agree": a refusal is accepted only
                # for the two things this generator adds on purpose and the backend does not translate (`%`, an int
                # literal outside 32 bits) — judged on the generator's tree, not on the wording of the error
                why = beyond_subset(module)
                if why is None:
                    R.violation("refused-inside-subset:%s" % e.refusal.get("stage"),
                                "%s (O%d): a program of the backend's scalar straight-line subset is refused (%s: %s)"
                                % (name, int(opt), e.refusal["cls"], e.refusal["msg"][:80]), dict(rep, mode="refusal"))
                else:
                    R.count("refusals_explained_by:" + why)
            continue
        R.count("modules_emitted")
        if e.decode_error or e.validation_error:
            why = e.decode_error[:2] if e.decode_error else e.validation_error
            R.violation("emitted-module-invalid:%s:%s" % (family.split(":")[0], why[0]),
                        "%s (O%d): no conforming engine can run the emitted module: %s" % (name, int(opt), why), dict(rep, bytes_hex=e.data.hex()[:2000]))
            continue
        comp = diff.Compiled(src, optimize=opt)
        if not comp.runnable:
            R.count("vm_side_not_runnable")
            continue
        exports = {n for n, k, i in e.module.exports if k == "func"}
        for f in module.funcs:
            if not f.exported:
                continue
            if f.name not in exports:
                R.violation("export-missing:%s" % family.split(":")[0], "%s: exported function %s is not exported by the emitted module" % (name, f.name), rep)
                continue
            for args in wasmsub.inputs_for(rng, f, 6 if must_be_supported else 10):
                R.evaluations += 1
                ref = diff.run_ref(module, f.name, args, {}, floor_mod=True, wide_literals=True)
                if ref.status != "ok":
                    R.count("dropped_out_of_domain")
                    continue
                vm = diff.run_vm(comp, f.name, args, {}, obs, 200000)
                ordered = [args[n] for _, n in f.params]
                st, wv = wasmrun.run_export(e, f.name, ordered)
                R.count("engine_runs")
                R.count("engine_steps", getattr(e.instance, "steps", 0) or 0)
                bad = None
                if vm.status == "exception":
                    if vm.exc["cls"] == "ZeroDivisionError":
                        if st != "trap":
                            bad = "VM raises ZeroDivisionError, engine %s %r" % (st, wv)
                    else:
                        R.count("vm_internal_failure(C05 territory)")
                        continue
                elif vm.status != "ok":
                    continue
                elif not vm_in_domain(vm.value, f.ret):
                    R.count("dropped_vm_left_domain")
                    continue
                elif st == "trap":
                    bad = "engine traps (%s), VM returns %r" % (wv, vm.value)
                elif st == "error":
                    bad = "engine cannot run the function: %s" % wv
                else:
                    bad = compare_values(vm.value, wv, f.ret, ref)
                    if bad is not None and not isinstance(wv, float) and isinstance(vm.value, int):
                        # an int that depends on a float comparison can legitimately flip between double and single
                        # precision: when the source evaluated at single precision disagrees with the double
                        # evaluation the case is precision-sensitive and not judged
                        r32 = diff.run_ref(module, f.name, args, {}, f32_mode=True, floor_mod=True, wide_literals=True)
                        if r32.status != "ok" or not sem.values_equal(r32.value, ref.value):
                            bad = None
                            R.count("dropped_precision_sensitive_int")
                    if bad is not None and isinstance(wv, float):
                        # the VM computes in double precision and rounds once; a conforming engine rounds after
                        # every operation.  Cancellation can amplify that beyond any simple bound, so the source
                        # semantics evaluated at single precision (same operations, same order) decides such cases
                        r32 = diff.run_ref(module, f.name, args, {}, f32_mode=True, floor_mod=True, wide_literals=True)
                        if r32.status != "ok":
                            bad = None
                            R.count("dropped_f32_out_of_domain")
                        elif abs(float(r32.value) - wv) <= 2e-6 * max(1.0, abs(wv)):
                            bad = None
                            R.count("float_agreement_by_f32_reference")
                if bad is not None:
                    R.violation("result-differs:%s" % family, "%s (O%d): %s(%s): %s" % (name, int(opt), f.name, ordered, bad),
                                dict(rep, function=f.name, args=ordered, vm=[vm.status, vm.value], engine=[st, wv]))
                    break
                R.count("results_compared")
                if getattr(e.instance, "steps", 0):
                    R.nontriv(src, opt, f.name, repr(ordered))


def run_shard(tier, seed, shard, n, R):
    obs = vmobs.Observer()
    rng0 = random.Random(seed * 13 + shard)
    for i, (name, module, fn) in enumerate(wasmsub.outside_subset(rng0)):
        if i % n == shard:
            check_module(R, obs, rng0, "outside:" + name, module, "outside:" + name, False)
    R.flags["outside_subset_family"] = True
    for j in range(BUDGET[tier]):
        s = (seed * 1000003 + shard) * 100000 + j
        rng = random.Random(s)
        kind = j % 8
        if kind < 5:
            module = wasmsub.WasmGen(rng, nfuncs=rng.randint(1, 6)).gen_module()
            check_module(R, obs, rng, "subset:%d" % s, module, "subset", True)
        elif kind < 7:
            module = gcore.CoreGen(rng, gcore.Cfg(max_stmts=rng.randint(2, 8), arrays=False, structs=False, globals=False, void_exports=False)).gen_module()
            check_module(R, obs, rng, "core:%d" % s, module, "core", False)
        else:
            module = gcalls.CallGen(rng, vectors=False).gen_module()
            check_module(R, obs, rng, "calls:%d" % s, module, "calls", False)
        if j == 0:
            R.sample({"source": print_module(module)[:1200]})


def finalize(M, tier):
    out = []
    if M.counters.get("results_compared", 0) == 0 and not M.violations:
        out.append("no engine result was compared with the VM")
    if M.counters.get("refused", 0) == 0 and not M.violations:
        out.append("no refusal observed: the outside-subset side of the property was not exercised")
    return out


def replay(case):
    src = case["sources"]["main"]
    opt = bool(case.get("optimize"))
    e = wasmrun.emit(src, opt)
    detail = {"refused": e.refused, "decode": e.decode_error, "validate": e.validation_error}
    if case.get("mode") == "refusal":
        return bool(e.refused), detail
    if e.refused or not e.out.accepted:
        return False, detail
    if e.decode_error or e.validation_error:
        return True, detail
    if "function" not in case:
        return False, detail
    comp = diff.Compiled(src, optimize=opt)
    obs = vmobs.Observer()
    fn = comp.out.ir.Functions[case["function"]]
    names = list(fn.Type.Arguments)
    vm = diff.run_vm(comp, case["function"], dict(zip(names, case["args"])), {}, obs, 2000000)
    st, wv = wasmrun.run_export(e, case["function"], case["args"])
    detail.update({"vm": [vm.status, vm.value], "engine": [st, wv]})
    if vm.status == "ok" and st == "ok":
        if isinstance(vm.value, float) or isinstance(wv, float):
            return abs(sem.f32(float(vm.value)) - float(wv)) > 1e-3 * max(1.0, abs(float(wv))), detail
        return vm.value is not None and int(vm.value) != int(wv), detail
    return (vm.status == "ok") != (st == "ok"), detail
