"""C11 — break and continue are accepted exactly inside loops, and bind to the innermost loop.

Deciding monitors: accept/reject observer at the front-end gate over enumerated statement trees
(oracle: the generator's own loop depth at the statement's position; everything else in the
program is valid by construction), and differential execution (VM vs RefSem) of the accepted
programs, whose per-loop counters show which loop a break/continue affected.
"""
import random

from .. import nslapi, diff
from ..gen import flow
from ..lang import print_module
from ..mon import vmobs

PROPERTY = "C11"
TECHNIQUE = "front-end gate accept/reject observer over enumerated statement trees + differential VM run of accepted programs"
LEVEL_TEXT = ("All nesting chains of the 11 statement constructs (block, if/else forms incl. unbraced and else-if, for/while/do incl. "
              "unbraced bodies) up to depth 2 (quick) / 3 (thorough) x break/continue x every placement level, plus random deeper "
              "chains with several flow statements: acceptance at the front-end gate must equal 'every flow statement has loop depth "
              "> 0', and accepted programs must return what the reference interpreter returns (per-loop counters expose innermost "
              "binding).")
LEVEL_NOTE = ("Trusted: the generator's loop-depth bookkeeping, the printer and the reference interpreter. Rejected = did not pass the "
              "front-end gate (any reason; diagnostic codes are evidence only); a parse-stage rejection is a harness problem.")
RULE = ("case = (construct chain, [(flow kind, placement level)]); non-trivial when the flow statement sits >= 1 construct below the "
        "function body; distinct by source text.")
ASSUMPTIONS = ["programs are otherwise valid by construction", "unbraced while bodies are judged for acceptance only (no run)"]
SHARD_TIMEOUT = {"quick": 900, "thorough": 3600}
INPUTS = [({"p": v}, {}) for v in (0, 1, 2, 5)]


def shards(tier):
    return 16


def mech(chain, flows, accepted_pred):
    kinds = sorted({f[0] for f in flows})
    if accepted_pred:
        inner = [chain[f[1] - 1] if f[1] > 0 else "body" for f in flows]
        return "rejected-inside-loop:%s:under-%s" % ("+".join(kinds), "+".join(sorted(set(inner))))
    bad = [(f[0], f[1]) for f in flows if flow.loop_depth(chain, f[1]) == 0]
    k, j = bad[0]
    closed_loop_before = any(c in flow.LOOPS for c in chain[j:])
    return "accepted-outside-loop:%s:%s" % (k, "after-a-closed-loop" if closed_loop_before else
                                            ("under-" + (chain[j - 1] if j > 0 else "function-body")))


def check_case(R, obs, chain, flows):
    module = flow.build(chain, flows)
    src = print_module(module)
    pred = all(flow.loop_depth(chain, f[1]) > 0 for f in flows)
    out = nslapi.compile_source(src)
    R.evaluations += 1
    R.count("programs")
    if any(f[1] > 0 for f in flows):
        R.nontriv(src)
    rep = {"sources": {"main": src}, "chain": list(chain), "flows": [list(f) for f in flows], "predicted": "accept" if pred else "reject"}
    if out.reject is not None and out.reject["stage"] == "parse":
        R.inconclusive.append("generated program does not parse: " + src.replace("\n", " ")[:300])
        return
    if out.accepted != pred:
        R.violation(mech(chain, flows, pred),
                    "%s program with %s under chain %s" % ("rejected" if pred else "accepted",
                                                           ", ".join("%s at level %d (loop depth %d)" % (f[0], f[1], flow.loop_depth(chain, f[1])) for f in flows),
                                                           "/".join(chain) or "<function body>"), dict(rep, gate=out.gate, reject=out.reject))
        return
    R.count("accepted_as_predicted" if pred else "rejected_as_predicted")
    if not pred:
        R.add_to("reject_reasons", "%s:%s" % (out.reject["name"], out.reject["cls"]))
        return
    if not flow.runnable(chain):
        R.count("accepted_not_run(unbraced while)")
        return
    res = diff.check_program(R, obs, "chain=%s flows=%s" % ("/".join(chain), flows), module, "f", INPUTS, "binding", source=src)
    R.programs_run = getattr(R, "programs_run", 0) + 1


def run_shard(tier, seed, shard, n, R):
    obs = vmobs.Observer()
    rng = random.Random(seed * 31337 + shard)
    depth = 2 if tier == "quick" else 3
    for i, (chain, flows) in enumerate(flow.single_cases(depth)):
        if i % n != shard:
            continue
        check_case(R, obs, chain, flows)
        if i % 499 == shard:
            R.sample({"chain": chain, "flows": flows, "source": print_module(flow.build(chain, flows)),
                      "predicted": "accept" if all(flow.loop_depth(chain, f[1]) > 0 for f in flows) else "reject"})
    R.flags["all_chains_to_depth_%d" % depth] = True
    for i, (chain, flows) in enumerate(flow.paired_cases()):
        if i % n == shard:
            check_case(R, obs, chain, flows)
            R.count("paired_cases")
    R.flags["outer_flow_before_inner_loop_with_flow_all_kind_pairs"] = True
    nrand = 220 if tier == "quick" else 6000
    for _ in range(nrand):
        chain, flows = flow.random_case(rng, 2 if tier == "quick" else 3, 6)
        if not flows:
            continue
        check_case(R, obs, chain, flows)
        R.count("random_cases")
    # a loop in an earlier function does not open a loop context for the next one
    if shard == 0:
        for kind in ("break", "continue"):
            src = ("function g (int p) -> int {\n  int s = 0;\n  for (int i = 0; i < 3; ++i) {\n    s = s + i;\n  }\n  return s;\n}\n"
                   "export function f (int p) -> int {\n  if (p != 0) {\n    %s;\n  }\n  return g(p);\n}\n" % kind)
            out = nslapi.compile_source(src)
            R.evaluations += 1
            if out.accepted:
                R.violation("accepted-outside-loop:%s:after-a-loop-in-another-function" % kind,
                            "%s outside any loop accepted because an earlier function contains a loop" % kind,
                            {"sources": {"main": src}, "predicted": "reject"})


def finalize(M, tier):
    out = []
    if M.counters.get("accepted_as_predicted", 0) == 0 or M.counters.get("rejected_as_predicted", 0) == 0:
        if not M.violations:
            out.append("one side (accept/reject) was never observed")
    if M.counters.get("vm_runs", 0) == 0 and not M.violations:
        out.append("no accepted program was executed")
    return out


def replay(case):
    if "function" in case:
        return diff.replay_program(case)
    out = nslapi.compile_source(case["sources"]["main"])
    return (out.accepted != (case["predicted"] == "accept")), {"gate": out.gate, "reject": out.reject, "predicted": case["predicted"]}
