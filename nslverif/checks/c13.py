"""C13 — static checks on element selection: constant bounds, index type, swizzle mask.

Deciding monitor: accept/reject observer at the front-end gate (all AST passes completed and
returned true, seen at the pass boundary) over complete grids; the oracle is arithmetic on the
declared shape.  Predicted-accepts are batched (bisected on rejection), predicted-rejects are
compiled one per module so that no rejection can hide another.
"""
import itertools
import random

from .. import nslapi
from ..lang import type_str

PROPERTY = "C13"
TECHNIQUE = "front-end gate accept/reject observer over complete shape x index x mask grids, oracle = arithmetic on the declared shape"
LEVEL_TEXT = ("Complete grids (thorough; quick = all boundary points plus a seeded 20% slice of the interior/mask grid): arrays of 1-3 "
              "dimensions with sizes 1-4 and a constant index from -2 to size+1 at each dimension; all 9 vector and 2 matrix types "
              "with constant element/row/column indices; index expressions of every scalar and vector type as literal and variable; "
              "all 11 110 masks of length 1-4 over xyzwrgba+{q,s} on every vector type. Each program's acceptance is observed at "
              "the front-end gate and compared with the prediction.")
LEVEL_NOTE = ("Trusted: the shape arithmetic in this file. Acceptance = parser returned a tree and every AST pass returned true; how a "
              "program is rejected (diagnostic, exception) is evidence only. A predicted-reject program rejected by the *parser* is "
              "treated as a harness problem (inconclusive), never as agreement.")
RULE = ("case = (declared type, access chain with one probed position, index value / index expression type / mask). Non-trivial: index "
        "within +-1 of a bound, or a non-int index type, or a mask with >= 2 letters or a letter beyond the vector size. Distinct by "
        "construction.")
ASSUMPTIONS = ["constant index = an integer literal token (incl. a signed one)", "swizzles on scalars are outside the statement"]
SHARD_TIMEOUT = {"quick": 900, "thorough": 3600}

VEC_TYPES = [(c, n) for c in ("float", "int", "uint") for n in (2, 3, 4)]
MAT_TYPES = [("float", 3, 3), ("float", 4, 4)]
SETS = ("xyzw", "rgba")


def shards(tier):
    return 16


# ---------------------------------------------------------------- case lists
def array_cases():
    """(decl type string, access expression text, accept?, boundary?)"""
    out = []
    for nd in (1, 2, 3):
        for dims in itertools.product((1, 2, 3, 4), repeat=nd):
            for elem in (("int",) if nd > 1 else ("int", "float")):
                decl = elem + "".join("[%d]" % d for d in dims)
                for p in range(nd):
                    for k in range(-2, dims[p] + 2):
                        idx = [0] * nd
                        idx[p] = k
                        # partial chains as well: probing position p only needs p+1 indices
                        for chain_len in sorted({p + 1, nd}):
                            acc = "t" + "".join("[%d]" % i for i in idx[:chain_len])
                            ok = 0 <= k < dims[p]
                            out.append(("array", decl, acc, ok, k in (-1, 0, dims[p] - 1, dims[p])))
    return out


def vecmat_cases():
    out = []
    for c, n in VEC_TYPES:
        decl = "%s%d" % (c, n)
        for k in range(-2, n + 2):
            out.append(("vector", decl, "t[%d]" % k, 0 <= k < n, k in (-1, 0, n - 1, n)))
    for c, r, k2 in MAT_TYPES:
        decl = "%s%dx%d" % (c, r, k2)
        for k in range(-2, r + 2):
            out.append(("matrix-row", decl, "t[%d]" % k, 0 <= k < r, k in (-1, 0, r - 1, r)))
            out.append(("matrix-row", decl, "t[%d][0]" % k, 0 <= k < r, k in (-1, 0, r - 1, r)))
        for k in range(-2, k2 + 2):
            out.append(("matrix-col", decl, "t[0][%d]" % k, 0 <= k < k2, k in (-1, 0, k2 - 1, k2)))
    # arrays of vectors / matrices: the chain continues into the element
    for k in range(-2, 5):
        out.append(("array-of-vector", "float3[2]", "t[%d]" % k, 0 <= k < 2, True))
        out.append(("array-of-vector", "float3[2]", "t[1][%d]" % k, 0 <= k < 3, True))
        out.append(("array-of-vector", "float3[2]", "t[%d][1]" % k, 0 <= k < 2, True))
    return out


def spelled_constant_cases():
    """constant indices in every integer literal spelling (decimal, hex, octal, signed): the bound check must not depend on it"""
    out = []
    for decl, n in (("int[4]", 4), ("float3", 3), ("float3x3", 3), ("int[2][4]", 2)):
        for k in (0, n - 1, n, n + 4, 8, 15):
            for sp in ("%d" % k, "0x%X" % k, "0x%x" % k, "0%o" % k if k else "00", "+%d" % k if k else "0"):
                out.append(("constant-spelling", decl, "t[%s]" % sp, 0 <= k < n, True))
    return out


def indextype_cases():
    """index expressions of every scalar/vector type, as literal and as variable"""
    out = []
    bases = ["int[4]", "float[4]", "float4", "int3", "float3x3", "float4x4", "int[2][3]"]
    lit = {"int": ["1", "0x1", "01"], "float": ["1.0", "1.5", "1.", ".5", "1e0", "1.0f"]}
    for b in bases:
        for ty, lits in lit.items():
            for l in lits:
                out.append(("index-literal-" + ty, b, "t[%s]" % l, ty == "int", True, None))
        for vt in ["int", "uint", "float", "int2", "float2", "uint3", "float4", "int4"]:
            out.append(("index-variable-" + vt, b, "t[i]", vt in ("int", "uint"), True, vt))
    return out


def mask_cases():
    out = []
    alphabet = "xyzwrgbaqs"
    for ln in (1, 2, 3, 4):
        for m in itertools.product(alphabet, repeat=ln):
            mask = "".join(m)
            for c, n in VEC_TYPES:
                ok = False
                for S in SETS:
                    if all(ch in S for ch in mask) and all(S.index(ch) < n for ch in mask):
                        ok = True
                interesting = ln >= 2 or any(ch in "zwbaqs" for ch in mask)
                out.append(("mask", "%s%d" % (c, n), "t.%s" % mask, ok, interesting))
    return out


def nested_mask_cases():
    """swizzle of a swizzle, of an array element, of a matrix row: the inner result size is what counts"""
    out = []
    for first, n1 in (("xy", 2), ("zyx", 3), ("xxxx", 4), ("w", 1)):
        for second in ("x", "y", "z", "w", "xy", "yx", "zz", "r", "gr", "q", "xr"):
            ok = all(ch in "xyzw" for ch in second) and all("xyzw".index(ch) < n1 for ch in second) or \
                all(ch in "rgba" for ch in second) and all("rgba".index(ch) < n1 for ch in second)
            out.append(("mask-nested", "float4", "t.%s.%s" % (first, second), bool(ok), True))
    # every link of a chain is checked against the size of what it is applied to: an invalid *inner* mask under a valid outer one
    def mask_ok(mask, size):
        return any(all(ch in S for ch in mask) and all(S.index(ch) < size for ch in mask) for S in ("xyzw", "rgba"))

    for base, bn in (("float2", 2), ("float3", 3), ("float4", 4), ("int2", 2)):
        for first in ("xy", "yx", "zw", "xg", "w", "xz", "zz", "ba", "xyz", "yyyy", "q"):
            for second in ("x", "y", "z", "xy", "r"):
                ok = mask_ok(first, bn) and mask_ok(second, len(first))
                out.append(("mask-chain", base, "t.%s.%s" % (first, second), ok, True))
    for base, bn in (("float2", 2), ("float4", 4)):
        for a_, b_, c_ in (("xy", "zw", "x"), ("xy", "yx", "x"), ("xy", "yx", "z"), ("zw", "xy", "x"), ("xyzw", "wz", "y"), ("xw", "y", "x"), ("xy", "x", "y")):
            ok = mask_ok(a_, bn) and mask_ok(b_, len(a_)) and mask_ok(c_, len(b_))
            out.append(("mask-chain3", base, "t.%s.%s.%s" % (a_, b_, c_), ok, True))
    for m in ("x", "z", "w", "xyz", "xw", "rgb", "a", "rx", "qq"):
        ok3 = (all(ch in "xyzw" for ch in m) and all("xyzw".index(ch) < 3 for ch in m)) or \
            (all(ch in "rgba" for ch in m) and all("rgba".index(ch) < 3 for ch in m))
        out.append(("mask-on-element", "float3[2]", "t[1].%s" % m, bool(ok3), True))
        out.append(("mask-on-row", "float3x3", "t[1].%s" % m, bool(ok3), True))
    return out


DECOYS = {"float2": "float4", "float3": "float4", "int2": "int4", "int3": "int4", "uint2": "uint4", "uint3": "uint4"}


def decoy_for(decl, acc):
    """a function placed *before* the probed one in which the very same access text is valid (same variable name, a bigger
    type): a validator that remembers verdicts by text, name or position instead of by node and type is fooled by it"""
    import re
    if decl in DECOYS:
        return "function decoy (%s t) -> void {\n  %s;\n}\n" % (DECOYS[decl], acc)
    m = re.match(r"^(int|float)((\[\d+\])+)$", decl)
    if m:
        dims = "".join("[9]" for _ in re.findall(r"\[\d+\]", m.group(2)))
        return "function decoy (%s%s t) -> void {\n  %s;\n}\n" % (m.group(1), dims, acc)
    return None


def context_cases():
    """one out-of-range / in-range constant access placed in every syntactic context an expression can occur in"""
    out = []
    ctxs = {
        "index-of-index": "int r = u[{A}];",
        "index-of-index-expr": "int r = u[{A} + 1];",
        "call-argument": "int r = h({A});",
        "binary-operand": "int r = 1 + {A} * 2;",
        "assignment-target": "{A} = 3;",
        "assignment-value": "int r; r = {A};",
        "compound-assignment": "{A} += 2;",
        "condition": "if ({A} > 0) {{ }}",
        "while-condition": "while ({A} > 99) {{ }}",
        "for-header": "for (int i = {A}; i < 1; ++i) {{ }}",
        "for-next": "for (int i = 0; i < 1; i = i + 1 + {A}) {{ }}",
        "return-value": "return {A};",
        "constructor-argument": "int2 r = int2({A}, 1);",
        "nested-call": "int r = h(h({A}));",
    }
    for cname, tmpl in ctxs.items():
        for k in (-1, 0, 3, 4, 7):
            a = "t[%d]" % k
            ok = 0 <= k < 4
            out.append(("context:" + cname, "int[4]", tmpl.format(A=a), ok, True, None, "u"))
    for cname, tmpl in (("member-of-element", "float r = p[{K}].x;"), ("element-of-member", "int r = s.arr[{K}];")):
        for k in (-1, 0, 1, 2, 5):
            out.append(("context:" + cname, "int[4]", tmpl.format(K=k), 0 <= k < 2, True, None, "ps"))
    return out


def source_for_ctx(stmt, extra):
    lines = []
    if extra == "ps":
        lines.append("struct S {\n  int[2] arr;\n}")
        sig = "int[4] t, float3[2] p, S s"
    else:
        sig = "int[4] t, int[9] u"
    lines.append("function h (int v) -> int {\n  return v;\n}")
    lines.append("export function f (%s) -> int {" % sig)
    lines.append("  " + stmt)
    if not stmt.startswith("return"):
        lines.append("  return 0;")
    lines.append("}")
    return "\n".join(lines) + "\n"


def source_for(decl, accesses, index_var_type=None):
    lines = ["export function f (%s t%s) -> void {" % (decl, (", %s i" % index_var_type) if index_var_type else "")]
    for a in accesses:
        lines.append("  %s;" % a)
    lines.append("}")
    return "\n".join(lines) + "\n"


def family_key(fam, decl, acc, predicted):
    return "%s:%s" % (fam, "accepted-should-reject" if not predicted else "rejected-should-accept")


def detail_key(fam, decl, acc, predicted, dims_hint=""):
    """mechanism: family + direction + which side of the range"""
    side = ""
    import re
    nums = re.findall(r"\[(-?\d+)\]", acc)
    if fam in ("array", "vector", "matrix-row", "matrix-col", "array-of-vector") and nums:
        probe = [int(x) for x in nums]
        neg = any(x < 0 for x in probe)
        side = ":negative" if neg else ":too-large"
        if fam == "array":
            nd = decl.count("[")
            # which chain position is out of range
            ds = [int(x) for x in re.findall(r"\[(\d+)\]", decl)]
            for pos, (x, d) in enumerate(zip(probe, ds)):
                if x < 0 or x >= d:
                    side += ":dim%d-of-%d" % (pos + 1, nd)
                    break
    if fam.startswith("mask") and not predicted:
        mask = acc.split(".")[-1]
        if any(ch not in "xyzwrgba" for ch in mask):
            side = ":foreign-letter"
        elif any(ch in "xyzw" for ch in mask) and any(ch in "rgba" for ch in mask):
            side = ":mixed-sets"
        else:
            side = ":component-beyond-size"
    return "%s:%s%s" % (fam, "accepted-should-reject" if not predicted else "rejected-should-accept", side if not predicted else "")


def check_reject(R, fam, decl, acc, ivt, interesting, with_decoy=False):
    src = source_for(decl, [acc], ivt)
    if with_decoy:
        d = decoy_for(decl, acc)
        if d is None:
            return
        src = d + src
        fam = fam + "+decoy"
    out = nslapi.compile_source(src)
    R.evaluations += 1
    R.count("predicted_reject_programs")
    if interesting:
        R.nontriv(fam, decl, acc, ivt)
    if out.accepted:
        R.violation(detail_key(fam, decl, acc, False),
                    "`%s` on `%s t` is accepted by the front end; the selection is outside the declared shape / not an integer index / not a valid mask"
                    % (acc, decl), {"sources": {"main": src}, "family": fam, "decl": decl, "access": acc, "predicted": "reject",
                                    "index_var_type": ivt})
    else:
        if out.reject["stage"] == "parse":
            R.inconclusive.append("predicted-reject program did not even parse (generator bug?): %s" % src.replace("\n", " "))
        R.count("rejected_as_predicted")
        R.add_to("reject_reasons", "%s:%s:%s" % (fam.split("-")[0], out.reject["name"], out.reject["cls"]))


def check_accept_batch(R, fam, decl, items, ivt=None):
    """items: [(acc, interesting)] all predicted-accept; bisect on rejection"""
    todo = [items]
    while todo:
        batch = todo.pop()
        src = source_for(decl, [a for a, _ in batch], ivt)
        out = nslapi.compile_source(src)
        R.evaluations += 1
        R.count("predicted_accept_programs")
        if out.accepted:
            for a, interesting in batch:
                R.count("accepted_as_predicted")
                if interesting:
                    R.nontriv(fam, decl, a, ivt)
            continue
        if len(batch) > 1:
            h = len(batch) // 2
            todo.append(batch[:h])
            todo.append(batch[h:])
            continue
        a = batch[0][0]
        R.violation(detail_key(fam, decl, a, True),
                    "`%s` on `%s t` is rejected (%s: %s %s); the selection lies inside the declared shape"
                    % (a, decl, out.reject["name"], out.reject["cls"], out.reject["msg"][:60]),
                    {"sources": {"main": src}, "family": fam, "decl": decl, "access": a, "predicted": "accept", "reject": out.reject,
                     "index_var_type": ivt})


def run_cases(R, cases, shard, n, tier, rng, slice_frac):
    """cases: (fam, decl, acc, ok, interesting[, ivt]); grouped by (fam, decl, ivt) for batching"""
    groups = {}
    for i, c in enumerate(cases):
        fam, decl, acc, ok, interesting = c[:5]
        ivt = c[5] if len(c) > 5 else None
        groups.setdefault((fam, decl, ivt), []).append((acc, ok, interesting))
    for gi, (gk, items) in enumerate(sorted(groups.items(), key=str)):
        if gi % n != shard:
            continue
        fam, decl, ivt = gk
        acc_ok = []
        for acc, ok, interesting in items:
            if slice_frac < 1.0 and not (interesting and fam != "mask") and rng.random() > slice_frac:
                R.count("skipped_in_quick_slice")
                continue
            if ok:
                acc_ok.append((acc, interesting))
            else:
                check_reject(R, fam, decl, acc, ivt, interesting)
                if ivt is None and (fam != "mask" or rng.random() < 0.3):
                    check_reject(R, fam, decl, acc, ivt, interesting, with_decoy=True)
        for j in range(0, len(acc_ok), 20):
            check_accept_batch(R, fam, decl, acc_ok[j:j + 20], ivt)


def run_shard(tier, seed, shard, n, R):
    rng = random.Random(seed * 977 + shard)
    full = tier == "thorough"
    run_cases(R, array_cases(), shard, n, tier, rng, 1.0 if full else 0.2)
    run_cases(R, vecmat_cases(), shard, n, tier, rng, 1.0)
    run_cases(R, indextype_cases(), shard, n, tier, rng, 1.0)
    run_cases(R, spelled_constant_cases(), shard, n, tier, rng, 1.0)
    run_cases(R, mask_cases(), shard, n, tier, rng, 1.0 if full else 0.12)
    run_cases(R, nested_mask_cases(), shard, n, tier, rng, 1.0)
    for i, (fam, decl, stmt, ok, interesting, ivt, extra) in enumerate(context_cases()):
        if i % n != shard:
            continue
        src = source_for_ctx(stmt, extra)
        out = nslapi.compile_source(src)
        R.evaluations += 1
        R.nontriv(fam, stmt)
        if out.reject is not None and out.reject["stage"] == "parse":
            R.inconclusive.append("context program does not parse: " + src.replace("\n", " "))
            continue
        if out.accepted != ok:
            R.violation("%s:%s" % (fam, "rejected-should-accept" if ok else "accepted-should-reject"),
                        "`%s` is %s; the constant index is %s its dimension" % (stmt, "rejected" if ok else "accepted", "inside" if ok else "outside"),
                        {"sources": {"main": src}, "family": fam, "predicted": "accept" if ok else "reject", "reject": out.reject})
        else:
            R.count("context_cases_as_predicted")
    R.flags["constant_access_in_every_expression_context"] = True
    R.flags["vector_matrix_index_grid"] = True
    R.flags["index_type_grid"] = True
    R.flags["array_grid"] = full
    R.flags["mask_grid_11110_x_9"] = full
    if shard == 0:
        R.sample({"source": source_for("int[2][3]", ["t[1][3]"]), "predicted": "reject"})
        R.sample({"source": source_for("float3", ["t.xz", "t.bgr"]), "predicted": "accept"})
        R.sample({"source": source_for("float2", ["t.xw"]), "predicted": "reject"})


def finalize(M, tier):
    out = []
    if M.counters.get("predicted_reject_programs", 0) == 0 or M.counters.get("predicted_accept_programs", 0) == 0:
        out.append("one side of the grid did not run")
    if nslapi.N_AST_PASSES_SEEN[0] < 0:
        out.append("gate not observed")
    return out


def replay(case):
    src = case["sources"]["main"]
    out = nslapi.compile_source(src)
    pred = case["predicted"] == "accept"
    return (out.accepted != pred), {"gate": out.gate, "reject": out.reject, "predicted": case["predicted"]}
