"""C07 — every emitted WebAssembly binary is well-formed and valid.

Deciding monitor: an independent strict decoder + WebAssembly 1.0 validator (nslverif/ref/wasm_*.py,
cross-validated against V8 during development) applied to every byte string the real compiler emits
without reporting an error.
"""
import random

from .. import wasmrun
from ..gen import wasmsub, core as gcore, whole
from ..lang import print_module

PROPERTY = "C07"
TECHNIQUE = "independent binary decoder + WebAssembly 1.0 validator (operand/control stack type checker) on every emitted module"
LEVEL_TEXT = ("Seeded random modules inside the backend's subset with 1-12 functions (all exported, or exported and internal ones mixed), 0-8 parameters of mixed int/float type, "
              "bodies producing many values of alternating types (local-group boundaries), integer constants at every 7-bit LEB "
              "boundary and sign boundary, float constants, void and non-void results, both optimisation settings; plus programs "
              "outside the subset and whole-language mutants (whatever is emitted there must be valid too). Every module object is written three times; every emitted byte "
              "string is decoded strictly (preamble, section ids/order/exact sizes, counts, indices) and type-checked.")
LEVEL_NOTE = ("Trusted: the reference decoder and validator (written from the specification, 0 disagreements with V8 on 158 hand-built "
              "and 84 000 mutated modules in tools/test_wasmref.py). A compilation that raises is a refusal and no C07 event.")
RULE = ("case = emitted byte string; non-trivial = decoded to its end with >= 1 function; distinct by bytes.")
ASSUMPTIONS = ["WebAssembly 1.0 (MVP) is the target: post-MVP features count as invalid"]
SHARD_TIMEOUT = {"quick": 900, "thorough": 5400}
BUDGET = {"quick": 220, "thorough": 7000}


def shards(tier):
    return 16


def judge(R, e, src, opt, family):
    if e.data is None:
        return False
    R.evaluations += 1
    R.count("modules_emitted")
    R.count("bytes_emitted", len(e.data))
    rep = {"sources": {"main": src}, "optimize": opt, "bytes_hex": e.data.hex()[:4000]}
    if e.decode_error:
        R.violation("malformed:%s" % e.decode_error[0], "emitted module does not decode: %s (%s) at offset %s" % e.decode_error, rep)
        return False
    if e.validation_error:
        R.violation("invalid:%s" % e.validation_error[0], "emitted module does not validate: %s (%s)" % e.validation_error, rep)
        return False
    R.count("modules_valid")
    # the same module object written again (a tool that writes to two places, a caller that measures first): those bytes
    # are emitted binaries too
    from .. import nslapi
    from ..ref import wasm_validate
    for k in (2, 3):
        try:
            again = nslapi.wasm_bytes(e.out.wasm)
        except Exception as ex:
            R.count("rewrite_refused")
            break
        R.evaluations += 1
        R.count("modules_written_again")
        if again == e.data:
            R.count("rewrites_identical")
            continue
        ok, stage, rule, detail = wasm_validate.validate_bytes(again)
        if not ok:
            R.violation("rewritten-module:%s:%s" % (stage, rule), "write number %d of one module object is not valid (%s: %s; %d bytes, first write %d bytes)"
                        % (k, rule, detail, len(again), len(e.data)), dict(rep, mode="rewrite", write=k, bytes_hex=again.hex()[:4000]))
            return False
        R.count("rewrites_different_but_valid")
    if e.module.codes:
        R.nontriv(e.data.hex())
    R.maximum("max_functions", len(e.module.codes))
    R.maximum("max_locals_in_a_body", max([len(c[0]) for c in e.module.codes] or [0]))
    return True


def reused_compiler(R, rng, label):
    """one Compiler object used for several compilations in a row (distinct function names; some sources are refused or
    rejected midway): every module it emits must be valid on its own"""
    from .. import nslapi
    from ..ref import wasm_decode, wasm_validate
    with nslapi.quiet():
        c = nslapi._Compiler.Compiler()
    for k in range(rng.randint(2, 5)):
        r = rng.random()
        if r < 0.7:
            src = print_module(wasmsub.WasmGen(rng, nfuncs=rng.randint(1, 4), prefix="m%d_" % k).gen_module())
        elif r < 0.85:
            name, m, fn = rng.choice(wasmsub.outside_subset(rng))
            src = print_module(m).replace("function f ", "function o%d_f " % k).replace("function h ", "function o%d_h " % k).replace("h (", "o%d_h (" % k)
        else:
            src = "export function bad%d (int a) -> int {\n  return a +;\n}\n" % k
        data = None
        try:
            with nslapi.quiet():
                res = c.Compile(src, {"optimize": bool(k % 2), "wasm": True})
                if res is not None and res.WasmModule is not None:
                    data = nslapi.wasm_bytes(res.WasmModule)
        except (Exception, SystemExit):
            R.count("reused_compiler_refusals")
            continue
        if data is None:
            continue
        R.evaluations += 1
        R.count("modules_emitted_by_a_reused_compiler")
        ok, stage, rule, detail = wasm_validate.validate_bytes(data)
        if not ok:
            R.violation("reused-compiler:%s:%s" % (stage, rule), "%s: module emitted by the %d. compilation of one Compiler object is not valid: %s (%s)"
                        % (label, k + 1, rule, detail), {"sources": {"main": src}, "compilation_index": k, "bytes_hex": data.hex()[:2000], "mode": "reused"})
            return
        R.nontriv(data.hex())


# sources at the edge of the front end's acceptance whose emitted code once was invalid (each is run in every run: the random
# mutants reach them only now and then)
DIRECTED = [
    ("bare-return-in-int-function", "export function f (int a) -> int {\n  return;\n}\n"),
    ("bare-return-in-float-function", "export function f (float a) -> float {\n  return;\n}\n"),
    ("bare-return-after-expression", "export function f (int a, int b) -> int {\n  a + b;\n  return;\n}\n"),
    ("empty-int-function", "export function f (int a) -> int {\n}\n"),
    ("empty-void-function", "export function f (int a) -> void {\n}\n"),
    ("expression-statement-only", "export function f (float a) -> float {\n  a * 2.0;\n}\n"),
    ("literal-statement-only", "export function f (float a) -> float {\n  1.5;\n}\n"),
    ("two-returns", "export function f (int a) -> int {\n  return a;\n  return a + 1;\n}\n"),
    ("void-with-value-less-return-twice", "export function f (int a) -> void {\n  return;\n  return;\n}\n"),
]


def run_shard(tier, seed, shard, n, R):
    for i, (dname, dsrc) in enumerate(DIRECTED):
        if i % n != shard:
            continue
        for opt in (False, True):
            e = wasmrun.emit(dsrc, opt)
            R.count("compilations")
            R.count("directed_sources")
            if not e.out.accepted:
                R.count("rejected_by_front_end")
                break
            if e.refused:
                R.count("refused")
                continue
            judge(R, e, dsrc, opt, "directed:" + dname)
    for j in range(BUDGET[tier]):
        s = (seed * 1000003 + shard) * 100000 + j
        rng = random.Random(s)
        kind = j % 10
        if kind < 7:
            src = print_module(wasmsub.WasmGen(rng).gen_module())
            fam = "subset"
        elif kind == 7:
            name, m, fn = rng.choice(wasmsub.outside_subset(rng))
            src = print_module(m)
            fam = "outside:" + name
        elif kind == 8:
            src = print_module(gcore.CoreGen(rng, gcore.Cfg(max_stmts=6, straight_line=True, calls=False, arrays=False, structs=False, globals=False)).gen_module())
            fam = "core-straight-line"
        else:
            src = whole.mutate(print_module(wasmsub.WasmGen(rng).gen_module()), rng)
            fam = "subset-mutant"
        for opt in (False, True):
            e = wasmrun.emit(src, opt)
            R.count("compilations")
            if not e.out.accepted:
                R.count("rejected_by_front_end")
                break
            if e.refused:
                R.count("refused")
                R.add_to("refusal_reasons", "%s:%s" % (e.refusal.get("stage"), e.refusal["cls"]))
                continue
            judge(R, e, src, opt, fam)
        if j == 0:
            R.sample({"family": fam, "source": src[:1000], "bytes_hex": (e.data.hex()[:300] if e.data else None)})
        if j % 8 == 0:
            reused_compiler(R, rng, "reuse:%d" % s)


def finalize(M, tier):
    out = []
    if M.counters.get("modules_emitted", 0) == 0:
        out.append("no module was emitted")
    return out


def replay(case):
    e = wasmrun.emit(case["sources"]["main"], bool(case.get("optimize")))
    if case.get("mode") == "rewrite" and e.data is not None:
        from .. import nslapi
        from ..ref import wasm_validate
        for k in range(2, int(case.get("write", 2)) + 1):
            again = nslapi.wasm_bytes(e.out.wasm)
        ok, stage, rule, detail = wasm_validate.validate_bytes(again)
        return (not ok), {"write": case.get("write"), "rule": rule, "detail": detail}
    return bool(e.data is not None and (e.decode_error or e.validation_error)), {"refused": e.refused, "decode": e.decode_error, "validate": e.validation_error}
