"""C01 — compiled programs compute what the source says (scalar core, VM).

Deciding monitor: differential execution.  Every generated program is compiled by the real
compiler (front-end gate observed), linked, and run on the real VM under the step observer;
the oracle is RefSem evaluating the generator's own tree on the same inputs.
"""
import random

from .. import diff
from ..driver import case_hash
from ..gen import core, directed
from ..lang import print_module
from ..mon import vmobs
from ..ref import sem

PROPERTY = "C01"
RULE = ("directed families (169 operator pairs x int/float/mixed operands, int-division sign grid, "
        "compound assignment x lvalue kind, ++/-- form x position, break/continue x loop kind x nesting, "
        "literal forms, re-initialised locals, assignment as value) run completely, plus seeded random "
        "scalar-core programs x 4 input vectors, at both optimisation settings (directed) / alternating (random).  A case (source, inputs) is non-trivial when the VM "
        "executed >= 3 binary opcodes and >= 1 branch and the oracle compared a value; directed operator "
        "pairs count when some input separates the two groupings.")
TECHNIQUE = "differential runtime monitoring: real compiler+VM under a step observer vs reference interpreter on the generator's tree"
LEVEL_TEXT = ("Every generated or enumerated scalar-core program is compiled by the real compiler, run on the real VM under the "
              "step observer (instruction budget, def-before-use, opcode coverage) and compared, value and globals, with a "
              "reference interpreter that evaluates the generator's own syntax tree. Directed families are complete; random "
              "programs are sampled. Verdict: held on the executions observed.")
LEVEL_NOTE = ("Trusted: the reference interpreter nslverif/ref/sem.py and the printer in nslverif/lang.py; cases outside the "
              "stated numeric domain (32-bit overflow, division by zero, negative %, narrowing conversions) are dropped, not judged.")
ASSUMPTIONS = ["RefSem (nslverif/ref/sem.py) is the source semantics as spelled out in the statement",
               "cases outside the stated numeric domain are dropped, not judged",
               "floats compared within 1e-9 relative"]
BUDGET = {"quick": 900, "thorough": 9000}   # random programs per shard
SHARD_TIMEOUT = {"quick": 600, "thorough": 5400}


def shards(tier):
    return 16


BINARY_OPS = {"ADD", "SUB", "MUL", "DIV", "MOD", "LG_AND", "LG_OR", "CMP_GT", "CMP_GE", "CMP_LT", "CMP_LE",
              "CMP_EQ", "CMP_NE"}


def check_program(R, obs, name, module, fname, inputs, family, tree=None, require_accept=True, optimize=False):
    res = diff.check_program(R, obs, name, module, fname, inputs, family + (":O1" if optimize else ""), require_accept=require_accept,
                             optimize=optimize)
    if not res["runnable"]:
        return
    src = res["source"]
    separated = False
    for (args, gl), (ref, vm) in zip(inputs, res["runs"]):
        if ref is None or vm is None or ref.status != "ok":
            continue
        if tree is not None:
            alt = directed.other_grouping(tree)
            if alt is not None:
                it = sem.Interp(module)
                try:
                    av = it.ev(alt, dict(args))
                    if not sem.values_equal(av, ref.value):
                        separated = True
                except (sem.OutOfDomain, sem.RefTimeout):
                    separated = True
            if separated:
                R.nontriv(src, args, gl)
        else:
            nbin = len(vm.ops & BINARY_OPS)
            if vm.steps >= 6 and (vm.branches >= 1 or nbin >= 2):
                R.nontriv(src, args, gl)
    if tree is not None:
        R.count("oppairs_separated" if separated else "oppairs_not_separated")


def run_shard(tier, seed, shard, n, R):
    obs = vmobs.Observer(frames=False, defuse=True, index=True)
    cases = directed.all_cases()
    R.flags["directed_families_complete"] = True
    for i, c in enumerate(cases):
        if i % n != shard:
            continue
        name, module, fname, inputs, tree = c
        fam = name.split(":")[0]
        # directed keys carry the case name: each one is a distinct mechanism
        for opt in (False, True):
            check_program(R, obs, name, module, fname, inputs, name if fam != "oppair" else "oppair:" + ":".join(name.split(":")[1:3]),
                          tree=tree, optimize=opt)
        R.count("directed_cases")
        if i % 97 == shard:
            R.sample({"case": name, "source": print_module(module), "inputs": inputs[:2]})
    budget = BUDGET[tier]
    for j in range(budget):
        s = (seed * 1000003 + shard) * 100000 + j
        rng = random.Random(s)
        g = core.CoreGen(rng, core.Cfg(max_stmts=rng.randint(3, 16)))
        try:
            module = g.gen_module()
        except RecursionError:
            continue
        for f in [f for f in module.funcs if f.exported]:
            inputs = core.gen_inputs(rng, module, f, 4)
            check_program(R, obs, "random:%d" % s, module, f.name, inputs, "random", optimize=bool(j % 2))
        R.count("random_programs")
        if j == 0:
            R.sample({"case": "random:%d" % s, "source": print_module(module)})


def finalize(M, tier):
    out = []
    if M.counters.get("vm_runs", 0) == 0:
        out.append("no VM run was compared by the oracle")
    if M.counters.get("directed_cases", 0) == 0:
        out.append("directed families did not run")
    return out


def replay(case):
    return diff.replay_program(case)
