"""C01 — compiled programs compute what the source says (scalar core, VM).

Deciding monitor: differential execution.  Every generated program is compiled by the real
compiler (front-end gate observed), linked, and run on the real VM under the step observer;
the oracle is RefSem evaluating the generator's own tree on the same inputs.
"""
import random

from .. import diff
from ..driver import case_hash
from ..gen import core, directed
from ..lang import print_module
from ..mon import vmobs
from ..ref import sem

PROPERTY = "C01"
RULE = ("directed families (169 operator pairs x int/float/mixed operands, int-division sign grid, "
        "compound assignment x lvalue kind, ++/-- form x position, break/continue x loop kind x nesting, "
        "literal forms, re-initialised locals, assignment as value) run completely, plus seeded random "
        "scalar-core programs x 4 input vectors.  A case (source, inputs) is non-trivial when the VM "
        "executed >= 3 binary opcodes and >= 1 branch and the oracle compared a value; directed operator "
        "pairs count when some input separates the two groupings.")
TECHNIQUE = "differential runtime monitoring: real compiler+VM under a step observer vs reference interpreter on the generator's tree"
LEVEL_TEXT = ("Every generated or enumerated scalar-core program is compiled by the real compiler, run on the real VM under the "
              "step observer (instruction budget, def-before-use, opcode coverage) and compared, value and globals, with a "
              "reference interpreter that evaluates the generator's own syntax tree. Directed families are complete; random "
              "programs are sampled. Verdict: held on the executions observed.")
LEVEL_NOTE = ("Trusted: the reference interpreter nslverif/ref/sem.py and the printer in nslverif/lang.py; cases outside the "
              "stated numeric domain (32-bit overflow, division by zero, negative %, narrowing conversions) are dropped, not judged.")
ASSUMPTIONS = ["RefSem (nslverif/ref/sem.py) is the source semantics as spelled out in the statement",
               "cases outside the stated numeric domain are dropped, not judged",
               "floats compared within 1e-9 relative"]
BUDGET = {"quick": 260, "thorough": 9000}   # random programs per shard
SHARD_TIMEOUT = {"quick": 600, "thorough": 5400}


def shards(tier):
    return 16


BINARY_OPS = {"ADD", "SUB", "MUL", "DIV", "MOD", "LG_AND", "LG_OR", "CMP_GT", "CMP_GE", "CMP_LT", "CMP_LE",
              "CMP_EQ", "CMP_NE"}


def check_program(R, obs, name, module, fname, inputs, family, tree=None, require_accept=True):
    src = print_module(module)
    comp = diff.Compiled(src)
    R.count("programs")
    if not comp.out.accepted:
        R.count("rejected")
        if require_accept:
            rj = comp.out.reject
            R.violation("rejected:%s:%s:%s" % (family, rj["name"], rj["cls"]),
                        "well-typed scalar-core program rejected by %s (%s %s)" % (rj["name"], rj["cls"], rj["msg"][:80]),
                        {"sources": {"main": src}, "case": name, "reject": rj})
        return
    if not comp.runnable:
        exc = comp.out.post_exc or comp.link_exc
        R.violation("compile-crash:%s:%s:%s" % (family, exc["cls"], exc.get("where")),
                    "accepted program fails after the front end: %s %s" % (exc["cls"], exc["msg"][:80]),
                    {"sources": {"main": src}, "case": name, "exc": exc})
        return
    gnames = [n for _, n in module.globals]
    separated = False
    for args, gl in inputs:
        ref = diff.run_ref(module, fname, args, gl)
        R.evaluations += 1
        if ref.status != "ok":
            R.count("dropped_" + ref.status)
            continue
        vm = diff.run_vm(comp, fname, args, gl, obs, diff.vm_budget(ref.steps))
        R.count("vm_runs")
        R.count("vm_instructions", vm.steps)
        if vm.harness:
            R.inconclusive.append("observer error: " + vm.harness[0])
        bad = diff.compare(ref, vm, gnames)
        for ev in vm.events:
            if ev["kind"] in ("read-of-undefined-value", "operand-not-a-value", "read-of-undeclared-local") and bad is None:
                bad = "monitor: %s at %s" % (ev["kind"], ev)
        if bad is not None:
            if vm.status == "exception":
                key = "vm-exception:%s:%s:%s" % (family, vm.exc["cls"], vm.where[2] if vm.where else "?")
            elif vm.status == "nonterminating":
                key = "nonterminating:%s" % family
            else:
                key = "mismatch:%s" % family
            R.violation(key, "%s: %s" % (name, bad),
                        {"sources": {"main": src}, "case": name, "function": fname, "inputs": {"args": args, "globals": gl},
                         "expected": {"value": ref.value, "globals": ref.globals},
                         "observed": {"status": vm.status, "value": vm.value, "globals": vm.globals, "exc": vm.exc},
                         "events": vm.events})
            continue
        nbin = len(vm.ops & BINARY_OPS)
        if tree is not None:
            alt = directed.other_grouping(tree)
            if alt is not None:
                it = sem.Interp(module)
                try:
                    av = it.ev(alt, dict(args))
                    if not sem.values_equal(av, ref.value):
                        separated = True
                except (sem.OutOfDomain, sem.RefTimeout):
                    separated = True
            if separated:
                R.nontriv(src, args, gl)
        elif vm.steps >= 6 and (vm.branches >= 1 or nbin >= 2):
            R.nontriv(src, args, gl)
    for o in obs.ops_run:
        R.add_to("opcodes", o)
    if tree is not None:
        R.count("oppairs_separated" if separated else "oppairs_not_separated")


def run_shard(tier, seed, shard, n, R):
    obs = vmobs.Observer(frames=False, defuse=True, index=True)
    cases = directed.all_cases()
    R.flags["directed_families_complete"] = True
    for i, c in enumerate(cases):
        if i % n != shard:
            continue
        name, module, fname, inputs, tree = c
        fam = name.split(":")[0]
        # directed keys carry the case name: each one is a distinct mechanism
        check_program(R, obs, name, module, fname, inputs, name if fam != "oppair" else "oppair:" + ":".join(name.split(":")[1:3]),
                      tree=tree)
        R.count("directed_cases")
        if i % 97 == shard:
            R.sample({"case": name, "source": print_module(module), "inputs": inputs[:2]})
    budget = BUDGET[tier]
    for j in range(budget):
        s = (seed * 1000003 + shard) * 100000 + j
        rng = random.Random(s)
        g = core.CoreGen(rng, core.Cfg(max_stmts=rng.randint(3, 16)))
        try:
            module = g.gen_module()
        except RecursionError:
            continue
        for f in [f for f in module.funcs if f.exported]:
            inputs = core.gen_inputs(rng, module, f, 4)
            check_program(R, obs, "random:%d" % s, module, f.name, inputs, "random")
        R.count("random_programs")
        if j == 0:
            R.sample({"case": "random:%d" % s, "source": print_module(module)})


def finalize(M, tier):
    out = []
    if M.counters.get("vm_runs", 0) == 0:
        out.append("no VM run was compared by the oracle")
    if M.counters.get("directed_cases", 0) == 0:
        out.append("directed families did not run")
    return out


def replay(case):
    from .. import nslapi
    src = case["sources"]["main"]
    comp = diff.Compiled(src)
    detail = {"gate": comp.out.gate, "reject": comp.out.reject, "post": comp.out.post_exc}
    if not comp.runnable:
        return True, detail
    if "inputs" not in case:
        return False, detail
    obs = vmobs.Observer()
    vm = diff.run_vm(comp, case["function"], case["inputs"]["args"], case["inputs"]["globals"], obs, 2000000)
    detail.update({"status": vm.status, "value": vm.value, "globals": vm.globals, "exc": vm.exc,
                   "expected": case.get("expected"), "events": vm.events})
    exp = case.get("expected") or {}
    ok = vm.status == "ok" and sem.values_equal(exp.get("value"), vm.value) and \
        all(sem.values_equal(v, vm.globals.get(k)) for k, v in (exp.get("globals") or {}).items())
    return (not ok), detail
