"""C12 — no two visible variables share a name; references bind lexically.

Deciding monitors: accept/reject observer at the front-end gate over block structures with one
extra declaration (or one use) inserted at every position with a name that is visible there,
declared only in a closed/disjoint scope, or fresh — the oracle replays the scope tree with an
explicit scope chain; differential VM run (vs RefSem) of accepted programs in which sibling
scopes reuse names with different types and values.
"""
import random

from .. import nslapi, diff
from ..gen import scope as gs
from ..gen import core as gcore
from ..lang import INT, FLOAT
from ..mon import vmobs

PROPERTY = "C12"
TECHNIQUE = "front-end gate accept/reject observer over scope trees with an inserted declaration/use at every position + differential VM run of accepted programs"
LEVEL_TEXT = ("All scope trees with up to 2 (quick) / 3 (thorough) nested or sibling constructs (block, if, if-else, for with header "
              "variable, while, do) and random deeper ones; at every insertion point one extra declaration named like a visible, an "
              "out-of-scope or a fresh variable, or one use of a name: acceptance at the front-end gate must equal the scope "
              "model's verdict; accepted programs are run on the VM against the reference interpreter (name reuse in sibling scopes "
              "with different types/values exposes wrong binding); one name used by two functions of a module in every "
              "pair of roles (parameter, local, loop-header variable, block local).")
LEVEL_NOTE = ("Trusted: the scope model in nslverif/gen/scope.py (conflicts()), printer, reference interpreter. Globals are visible in "
              "every function regardless of textual order. Parameter-vs-global clashes and unbraced declarations are not generated "
              "(the statement does not cover them). Rejected = did not pass the front-end gate, for any reason.")
RULE = ("case = (scope tree, insertion point, inserted item); non-trivial when the inserted name is visible there or declared only "
        "in a closed/disjoint scope (fresh names are trivial); distinct by source text.")
ASSUMPTIONS = ["programs are otherwise valid by construction", "the scope of an if statement holds no names of its own"]
SHARD_TIMEOUT = {"quick": 900, "thorough": 7200}
INPUTS = [({"p": v}, None) for v in (0, 1, 2)]


def shards(tier):
    return 16


def insert(prog, path, index, item):
    p2 = gs.Program(prog.root.clone(), prog.params, prog.globals, prog.globals_after)
    gs.scope_at(p2.root, path).items.insert(index, item)
    return p2


def mech(conf, accepted):
    if accepted:
        what, name, rel = conf[0]
        return "accepted:%s:%s" % (what, rel)
    return "rejected-valid-program"


def check_prog(R, obs, rng, prog, label, category):
    conf = gs.conflicts(prog)
    module, src = gs.print_program(prog)
    out = nslapi.compile_source(src)
    R.evaluations += 1
    R.count("programs")
    if category != "fresh":
        R.nontriv(src)
    pred = not conf
    rep = {"sources": {"main": src}, "label": label, "predicted": "accept" if pred else "reject", "conflicts": [list(c) for c in conf]}
    if out.reject is not None and out.reject["stage"] == "parse":
        R.inconclusive.append("generated program does not parse: " + src.replace("\n", " ")[:300])
        return
    if out.accepted != pred:
        if pred:
            key = "rejected-valid-program:%s:%s" % (category, out.reject["name"])
            msg = "valid program (inserted %s) rejected by %s: %s %s" % (label, out.reject["name"], out.reject["cls"], out.reject["msg"][:60])
        else:
            key = mech(conf, True)
            msg = "accepted although %s of '%s' (%s) — inserted %s" % (conf[0][0], conf[0][1], conf[0][2], label)
        R.violation(key, msg, dict(rep, gate=out.gate, reject=out.reject))
        return
    R.count("accepted_as_predicted" if pred else "rejected_as_predicted")
    if not pred:
        R.add_to("reject_reasons", "%s:%s:%s" % (conf[0][0], out.reject["name"], out.reject["cls"]))
        return
    inputs = []
    for p in (0, 1, 2):
        args = {"p": p}
        for t, n in prog.params[1:]:
            args[n] = gcore.rand_value(rng, t, None)
        gl = {n: gcore.rand_value(rng, t, None) for t, n in prog.globals}
        inputs.append((args, gl))
    # both optimisation settings: the unoptimised one always, the optimised one for every other program
    diff.check_program(R, obs, label, module, "f", inputs, "binding:" + category, source=src)
    R.programs_seen = getattr(R, "programs_seen", 0) + 1
    if R.programs_seen % 2 == 0:
        diff.check_program(R, obs, label, module, "f", inputs, "binding-O1:" + category, source=src, optimize=True)


def variants(rng, prog, all_positions=True, per_pos=None):
    """(program, label, category) with one extra item inserted"""
    declared = sorted(set(gs.all_decl_names(prog.root)))
    poss = list(gs.positions(prog.root))
    if not all_positions:
        poss = rng.sample(poss, min(len(poss), per_pos))
    for path, idx in poss:
        sc = gs.scope_at(prog.root, path)
        if sc.kind == "forhdr":
            continue        # between header and body nothing can be inserted
        vis = gs.visible_at(prog, path, idx)
        hidden = [n for n in declared if n not in vis]
        ty = rng.choice([INT, FLOAT])
        picks = []
        if vis:
            picks.append(("visible", rng.choice(sorted(vis))))
        if hidden:
            picks.append(("hidden", rng.choice(hidden)))
        picks.append(("fresh", "zz"))
        for cat, name in picks:
            yield insert(prog, path, idx, ("decl", name, ty, 5)), "decl %s at %s[%d]" % (name, list(path), idx), cat
        if hidden:
            name = rng.choice(hidden)
            yield insert(prog, path, idx, ("use", name)), "use %s at %s[%d]" % (name, list(path), idx), "use-hidden"
            yield insert(prog, path, idx, ("bump", name)), "write %s at %s[%d]" % (name, list(path), idx), "use-hidden"
        if vis:
            name = rng.choice(sorted(vis - {"acc"}))
            yield insert(prog, path, idx, ("bump", name)), "write %s at %s[%d]" % (name, list(path), idx), "use-visible"
        # a name of a closed/disjoint scope declared again with the SAME type and WITHOUT initialiser, read before it is
        # written: it must be a fresh zero, not the sibling's storage
        htyped = [(nm, t2) for nm, t2 in gs.all_decls(prog.root) if nm not in vis]
        if htyped:
            nm, t2 = rng.choice(htyped)
            p4 = insert(prog, path, idx, ("decl", nm, t2, None))
            gs.scope_at(p4.root, path).items.insert(idx + 1, ("use", nm))
            gs.scope_at(p4.root, path).items.insert(idx + 2, ("bump", nm))
            gs.scope_at(p4.root, path).items.insert(idx + 3, ("use", nm))
            yield p4, "uninitialised re-declaration of %s (same type) then use at %s[%d]" % (nm, list(path), idx), "hidden-uninitialised"
        # a declaration as the unbraced body of if / if-else / for / while: scoped to that statement
        sk = rng.choice(["if", "for", "while"])   # (if-else with two unbraced declarations: the statement does not say whether the branches are scopes)
        for cat, name in picks:
            yield insert(prog, path, idx, ("stmtdecl", sk, name, ty, 5)), "unbraced %s-body decl %s at %s[%d]" % (sk, name, list(path), idx), "unbraced-" + cat
        p2 = insert(prog, path, idx, ("stmtdecl", sk, "zz", ty, 5))
        gs.scope_at(p2.root, path).items.insert(idx + 1, ("use", "zz"))
        yield p2, "unbraced %s-body decl zz then use of zz at %s[%d]" % (sk, list(path), idx), "unbraced-use-after"
        p3 = insert(prog, path, idx, ("stmtdecl", sk, "zz", ty, 5))
        gs.scope_at(p3.root, path).items.insert(idx + 1, ("stmtdecl", rng.choice(["if", "for", "while"]), "zz", INT, 6))
        gs.scope_at(p3.root, path).items.insert(idx + 2, ("decl", "zz", FLOAT, 7))
        yield p3, "unbraced decls of zz twice then a plain declaration of zz at %s[%d]" % (list(path), idx), "unbraced-reuse"


def run_shard(tier, seed, shard, n, R):
    obs = vmobs.Observer()
    rng = random.Random(seed * 104729 + shard)
    nodes = 2 if tier == "quick" else 3
    skels = gs.enumerate_skeletons(nodes)
    R.flags["all_scope_trees_upto_%d_constructs" % nodes] = True
    for i, root in enumerate(skels):
        if i % n != shard:
            continue
        prog = gs.Program(root, [(INT, "p")], [(FLOAT, "g0")], globals_after=(i % 3 == 0))
        check_prog(R, obs, rng, prog, "skeleton", "base")
        for p2, label, cat in variants(rng, prog, all_positions=(i % 4 == 0), per_pos=4):
            check_prog(R, obs, rng, p2, label, cat)
        R.count("skeletons")
        if i % 97 == shard:
            R.sample({"skeleton_source": gs.print_program(prog)[1]})
    for i, (name, module) in enumerate(gs.sibling_family()):
        if i % n != shard:
            continue
        from ..lang import print_module
        src = print_module(module)
        ins = [({"p": v}, {}) for v in (0, 1, 5)]
        for opt in (False, True):
            res = diff.check_program(R, obs, name, module, "f", ins, name + (":O1" if opt else ":O0"), source=src, optimize=opt)
            if res["runnable"] and res["bad"] == 0:
                R.nontriv(src, opt)
        R.count("sibling_family_cases")
    R.flags["sibling_reuse_family_all_scope_kind_pairs"] = True
    for i, (name, module, calls) in enumerate(gs.cross_function_family()):
        if i % n != shard:
            continue
        from ..lang import print_module
        src = print_module(module)
        for opt in (False, True):
            res = diff.check_program(R, obs, name, module, calls, None, ":".join(name.split(":")[:3]) + (":O1" if opt else ":O0"), source=src, optimize=opt)
            if res["runnable"] and res["bad"] == 0:
                R.nontriv(src, opt)
        R.count("cross_function_family_cases")
    R.flags["cross_function_reuse_family_all_role_pairs"] = True
    nrand = 25 if tier == "quick" else 500
    for j in range(nrand):
        prog = gs.random_skeleton(rng)
        if gs.conflicts(prog):
            R.count("random_skeleton_discarded")
            continue
        check_prog(R, obs, rng, prog, "random skeleton", "base")
        for p2, label, cat in variants(rng, prog, all_positions=False, per_pos=6):
            check_prog(R, obs, rng, p2, label, cat)
        R.count("random_skeletons")
        if j == 0:
            R.sample({"random_source": gs.print_program(prog)[1]})


def finalize(M, tier):
    out = []
    if not M.violations:
        if M.counters.get("accepted_as_predicted", 0) == 0 or M.counters.get("rejected_as_predicted", 0) == 0:
            out.append("one side (accept/reject) was never observed")
        if M.counters.get("vm_runs", 0) == 0:
            out.append("no accepted program was executed")
    return out


def replay(case):
    if "function" in case:
        return diff.replay_program(case)
    out = nslapi.compile_source(case["sources"]["main"])
    return (out.accepted != (case["predicted"] == "accept")), {"gate": out.gate, "reject": out.reject, "predicted": case["predicted"]}
