"""C10 — overload resolution picks the unique best viable candidate.

Deciding monitors: (a) a contract on the real `Scope.FindFunction` (shadowing `RegisterFunction`)
judged against the order-independent spec resolver (ref/overload.py), driven at the interface by
all sets of <= 3 overloads over the universe, in every declaration order, against every argument
list; (b) end to end: programs whose overloads return distinct constants, compiled, linked and
run on the VM — accept/reject at the front-end gate and the constant that comes back.
"""
import itertools
import random

from .. import nslapi
from ..lang import INT, UINT, FLOAT, type_str
from ..mon import contracts
from ..ref import overload as ospec

PROPERTY = "C10"
TECHNIQUE = "contract on the real FindFunction against an independent resolver, enumerated overload sets x orders x argument lists; end-to-end returned-constant probe"
LEVEL_TEXT = ("Interface: every set of up to 2 (quick) / up to 3 (thorough: all 29 316 sets) distinct signatures with 1-2 parameters over "
              "{int,uint,float,int2,int3,float2,float3}, in every declaration order, against every argument list of length 1-2 "
              "(plus arity mismatches), judged by a post-condition contract on the real FindFunction. End to end: sampled sets "
              "compiled and run; the overload that ran is identified by the constant it returns.")
LEVEL_NOTE = ("Trusted: the resolver in nslverif/ref/overload.py transcribed from the statement (viable = same arity and every argument "
              "convertible: scalar<->scalar, vector<->vector of equal size; fewest conversions wins; tie/none/unknown name = reject). "
              "Calls involving optional parameters, matrices, arrays or structs are counted as outside the universe and not judged.")
RULE = ("case = (overload set, declaration order, argument list); non-trivial when >= 2 candidates of the called name are declared. "
        "distinct by construction (interface) / by source text (end to end).")
ASSUMPTIONS = ["spec resolver = statement of C10", "end-to-end: each overload returns a distinct constant, the VM result identifies the callee"]
SHARD_TIMEOUT = {"quick": 900, "thorough": 5400}

U = [INT, UINT, FLOAT, ("vec", INT, 2), ("vec", FLOAT, 2), ("vec", FLOAT, 3), ("vec", INT, 3)]
SIGS = [(a,) for a in U] + [(a, b) for a in U for b in U]
ARGLISTS = SIGS + [(), (INT, INT, INT), (FLOAT, ("vec", FLOAT, 2), INT)]


def shards(tier):
    return 16


def make_scope(order, name="f"):
    T = nslapi.nsl.types
    A = nslapi.nsl.ast
    parent = T.Scope()
    scope = T.Scope(parent)
    fns = []
    for k, sig in enumerate(order):
        args = [A.Argument(contracts.real_type(t), "p%d" % i) for i, t in enumerate(sig)]
        f = T.Function(name, T.Integer(), args)
        f.Resolve(parent)
        parent.RegisterFunction(name, f)
        fns.append(f)
    return scope, parent, fns


def drive_set(R, sigset, arglists, rng=None, max_orders=None):
    orders = list(itertools.permutations(sigset))
    if max_orders is not None and len(orders) > max_orders:
        orders = rng.sample(orders, max_orders)
    for order in orders:
        scope, parent, fns = make_scope(order)
        for args in arglists:
            R.evaluations += 1
            rargs = [contracts.real_type(t) for t in args]
            try:
                # call through the child scope: the name is found one level up
                scope.FindFunction("f", rargs)
            except Exception:
                pass
            if len(order) >= 2:
                R.count("interface_calls_with_2plus_candidates")


def okey(f):
    """mechanism key: finding kind + how the expected and observed relate (arity/compat/score pattern)"""
    cands, args = f["candidates"], tuple(_tt(a) for a in f["args"])
    pat = []
    for c in cands:
        c = tuple(_tt(x) for x in c)
        if len(c) != len(args):
            pat.append("arity")
            continue
        s = []
        for a, p in zip(args, c):
            s.append("=" if a == p else ("c" if ospec.convertible(a, p) else "x"))
        pat.append("".join(s))
    return "%s:%s" % (f["kind"], ",".join(sorted(pat)))


def _tt(x):
    return tuple(x) if isinstance(x, list) else x


def report(R, rec, prefix):
    for f in rec.findings:
        R.violation("%s:%s" % (prefix, okey(f)),
                    "FindFunction(%s) among %s: expected %s, observed %s"
                    % (", ".join(type_str(_tt(a)) for a in f["args"]),
                       " | ".join("(" + ", ".join(type_str(_tt(t)) for t in c) + ")" for c in f["candidates"]),
                       f["expected"], f["observed"]),
                    {"mode": "interface", "candidates": f["candidates"], "args": f["args"], "expected": f["expected"],
                     "observed": f["observed"], "kind": f["kind"]})
    rec.findings = []


# ------------------------------------------------------------------ end to end
def e2e_module(order, calls, placement="after", exported_sig=None):
    """overloads in `order` returning 101, 102, ... by *signature identity* (sorted), callers c0.. for `calls`.
    placement: the callers come after all overloads, before all of them, or interleaved with them (the outcome must not
    depend on where a caller sits relative to the declarations either)"""
    ident = {sig: 101 + i for i, sig in enumerate(sorted(order, key=str))}
    decls = []
    for sig in order:
        ps = ", ".join("%s p%d" % (type_str(t), i) for i, t in enumerate(sig))
        # (one overload of the set may be exported — two may not; its siblings stay internal: same resolution)
        decls.append("%sfunction f (%s) -> int {\n  return %d;\n}" % ("export " if sig == exported_sig else "", ps, ident[sig]))
    callers = []
    for k, args in enumerate(calls):
        ps = ", ".join("%s a%d" % (type_str(t), i) for i, t in enumerate(args))
        callers.append("export function c%d (%s) -> int {\n  return f(%s);\n}" % (k, ps, ", ".join("a%d" % i for i in range(len(args)))))
    if placement == "before":
        lines = callers + decls
    elif placement == "between":
        lines = []
        for i in range(max(len(decls), len(callers))):
            if i < len(callers):
                lines.append(callers[i])
            if i < len(decls):
                lines.append(decls[i])
    else:
        lines = decls + callers
    return "\n".join(lines) + "\n", ident


def value_for(t):
    if t == FLOAT:
        return 1.5
    if isinstance(t, str):
        return 2
    return [value_for(t[1])] * t[2]


def run_e2e_set(R, sigset, rng):
    arglists = [a for a in SIGS]
    exported_sig = rng.choice(sorted(sigset, key=str)) if rng.random() < 0.3 else None
    if exported_sig is not None:
        R.count("e2e_sets_with_one_exported_overload")
    for order in itertools.permutations(sigset):
        ptypes = list(order)
        accepted = [a for a in arglists if ospec.resolve(ptypes, a) is not None]
        rejected = [a for a in arglists if ospec.resolve(ptypes, a) is None]
        rng.shuffle(rejected)
        todo = [(accepted, True)] if accepted else []
        # predicted rejections: one call per module
        for a in rejected[:6]:
            todo.append(([a], False))
        while todo:
            calls, expect_ok = todo.pop()
            src, ident = e2e_module(order, calls, rng.choice(["after", "before", "between"]), exported_sig)
            out = nslapi.compile_source(src)
            R.evaluations += 1
            R.count("e2e_modules")
            rep = {"mode": "e2e", "sources": {"main": src}, "order": [list(s) for s in order], "calls": [list(c) for c in calls]}
            if not expect_ok:
                if out.accepted:
                    R.violation("e2e:accepted-should-reject:%s" % okey({"kind": "", "candidates": ptypes, "args": calls[0]}),
                                "call f(%s) is accepted although no unique best viable overload exists among %s"
                                % (", ".join(map(type_str, calls[0])), [tuple(map(type_str, s)) for s in order]), rep)
                else:
                    R.count("e2e_rejected_as_specified")
                if len(order) >= 2:
                    R.nontriv(src)
                continue
            if not out.accepted:
                if len(calls) > 1:
                    half = len(calls) // 2
                    todo.append((calls[:half], True))
                    todo.append((calls[half:], True))
                    continue
                R.violation("e2e:rejected-should-resolve:%s" % okey({"kind": "", "candidates": ptypes, "args": calls[0]}),
                            "call f(%s) rejected (%s %s %s); the best viable overload is %s"
                            % (", ".join(map(type_str, calls[0])), out.reject["name"], out.reject["cls"], out.reject["msg"][:50],
                               tuple(map(type_str, ptypes[ospec.resolve(ptypes, calls[0])]))), rep)
                continue
            if not out.usable:
                R.count("e2e_post_gate_failure(C05 territory)")
                continue
            try:
                with nslapi.quiet():
                    prog = nslapi.link([out.ir])
                vm = nslapi.make_vm(prog)
            except Exception as e:
                R.count("e2e_link_failure(C05 territory)")
                continue
            for k, args in enumerate(calls):
                exp = ident[ptypes[ospec.resolve(ptypes, args)]]
                try:
                    got = vm.Invoke("c%d" % k, **{"a%d" % i: value_for(t) for i, t in enumerate(args)})
                except Exception as e:
                    R.count("e2e_exec_failure(C05 territory)")
                    R.add_to("e2e_exec_failures", "%s: %s" % (type(e).__name__, str(e)[:60]))
                    continue
                R.count("e2e_calls_executed")
                if got != exp:
                    inv = {v: k2 for k2, v in ident.items()}
                    R.violation("e2e:wrong-overload-ran:%s" % okey({"kind": "", "candidates": ptypes, "args": args}),
                                "f(%s) ran overload %s, the best viable one is %s"
                                % (", ".join(map(type_str, args)), tuple(map(type_str, inv.get(got, ("?",)))) if got in inv else got,
                                   tuple(map(type_str, ptypes[ospec.resolve(ptypes, args)]))),
                                dict(rep, call_index=k, expected=exp, observed=got))
            if len(order) >= 2:
                R.nontriv(src)


def run_shard(tier, seed, shard, n, R):
    rec = contracts.OverloadRecorder()
    contracts.install_overload(rec)
    rng = random.Random(seed * 1000 + shard)
    i = 0
    # all sets of size 1 and 2
    for k in (1, 2):
        for sigset in itertools.combinations(SIGS, k):
            i += 1
            if i % n != shard:
                continue
            drive_set(R, sigset, ARGLISTS)
    R.flags["interface_sets_upto_2_all_orders_all_arglists"] = True
    report(R, rec, "iface")
    if tier == "thorough":
        for sigset in itertools.combinations(SIGS, 3):
            i += 1
            if i % n != shard:
                continue
            drive_set(R, sigset, ARGLISTS)
            if len(rec.findings) > 500:
                report(R, rec, "iface")
        R.flags["interface_sets_of_3_all_orders_all_arglists"] = True
    else:
        for _ in range(300):
            sigset = tuple(rng.sample(SIGS, 3))
            drive_set(R, sigset, ARGLISTS)
        R.flags["interface_sets_of_3_all_orders_all_arglists"] = False
    report(R, rec, "iface")
    R.count("contract_evaluations_interface", rec.evaluations)
    before = rec.evaluations
    # end to end
    nsets = 14 if tier == "quick" else 300
    for j in range(nsets):
        size = rng.choice([1, 2, 2, 3, 3, 3])
        # bias towards same-arity sets, where the resolver has work to do
        ar = rng.choice([1, 2, 2])
        pool = [s for s in SIGS if len(s) == ar] if rng.random() < 0.7 else SIGS
        sigset = tuple(rng.sample(pool, min(size, len(pool))))
        run_e2e_set(R, sigset, rng)
        if j == 0:
            R.sample({"overloads": [tuple(map(type_str, s)) for s in sigset], "module": e2e_module(sigset, [sigset[0]], "between")[0]})
    R.count("contract_evaluations_e2e", rec.evaluations - before)
    report(R, rec, "compile")
    R.count("contract_judged", rec.judged)
    R.count("contract_out_of_universe", rec.out_of_universe)
    R.count("contract_unknown_name", rec.unknown_name_calls)


def finalize(M, tier):
    out = []
    if M.counters.get("contract_evaluations_interface", 0) == 0:
        out.append("FindFunction contract never evaluated at the interface")
    if M.counters.get("contract_evaluations_e2e", 0) == 0:
        out.append("FindFunction contract never reached from a real compilation")
    if M.counters.get("e2e_calls_executed", 0) == 0:
        out.append("no end-to-end call was executed")
    return out


def replay(case):
    rec = contracts.OverloadRecorder()
    contracts.install_overload(rec)
    if case.get("mode") == "interface":
        cands = [tuple(_tt(t) for t in c) for c in case["candidates"]]
        args = tuple(_tt(a) for a in case["args"])
        scope, parent, fns = make_scope(cands)
        try:
            scope.FindFunction("f", [contracts.real_type(t) for t in args])
        except Exception:
            pass
        return bool(rec.findings), {"findings": rec.findings}
    order = [tuple(_tt(t) for t in s) for s in case["order"]]
    calls = [tuple(_tt(t) for t in c) for c in case["calls"]]
    src = case["sources"]["main"]
    out = nslapi.compile_source(src)
    detail = {"gate": out.gate, "reject": out.reject}
    expect_ok = all(ospec.resolve(order, c) is not None for c in calls)
    if out.accepted != expect_ok:
        return True, detail
    if out.usable and expect_ok:
        ident = e2e_module(order, calls)[1]
        prog = nslapi.link([out.ir])
        vm = nslapi.make_vm(prog)
        for k, args in enumerate(calls):
            exp = ident[order[ospec.resolve(order, args)]]
            got = vm.Invoke("c%d" % k, **{"a%d" % i: value_for(t) for i, t in enumerate(args)})
            if got != exp:
                detail.update({"call": k, "expected": exp, "observed": got})
                return True, detail
    return False, detail
