"""C17 — a stored IR module reloads to the same program.

Deciding monitor: cross-process store/load comparison.  `nslc.py [-O 1] src -o file` writes the module
in its own process; the file is loaded (a) in this process and (b) in a fresh process through the
repository's FilesystemModuleLoader; listing text and VM results on several inputs are compared with the
module compiled in memory from the same source and options; `nslr.py run` output is compared for
functions with scalar signatures.
"""
import os
import random
import re
import shutil
import subprocess
import tempfile

from .. import diff, nslapi, bootstrap
from ..gen import core as gcore, vec as gvec, calls as gcalls, state as gstate, whole
from ..lang import print_module, is_scalar, INT, FLOAT
from ..mon import vmobs
from ..procs import runner
from ..ref import sem

PROPERTY = "C17"
TECHNIQUE = "cross-process store (nslc.py) / load (FilesystemModuleLoader in this and in a fresh process): listing and VM-result comparison with the in-memory compile; nslr.py output"
LEVEL_TEXT = ("Seeded random programs of every generator (scalar core, vectors/matrices, call graphs, global-state programs with "
              "structs and multi-dimensional arrays, whole-language seeds) are compiled in memory and by nslc.py in another process "
              "at both optimisation settings; the stored file is loaded in this process and in a third, fresh process; the three "
              "listings must be identical and every exported function must return the same value and leave the same globals on "
              "the same inputs; for scalar signatures the nslr.py command line must print the same value.")
LEVEL_NOTE = ("Trusted: text equality of the repository's own InstructionPrinter output, value comparison (floats exact: the same "
              "interpreter runs both). Only programs nslc accepts are compared; nslc failing where the in-memory compile succeeds "
              "(or the reverse) is a violation.")
RULE = ("case = (source, optimisation setting); non-trivial when the module was written by one process and loaded and executed by "
        "another; distinct by (source, setting).")
ASSUMPTIONS = ["the in-memory compile of the same source and options is the reference"]
SHARD_TIMEOUT = {"quick": 1200, "thorough": 7200}
BUDGET = {"quick": 6, "thorough": 190}

# programs whose function *starts* with each statement kind (which value gets reference number 0 varies with it)
FIRST_STATEMENT = [
    ("while", "export function f (int n) -> int {\n  while (n > 0) {\n    n = n - 2;\n  }\n  return n;\n}\n"),
    ("do", "export function f (int n) -> int {\n  do {\n    n = n - 3;\n  }\n  while (n > 0)\n  return n;\n}\n"),
    ("for", "export function f (int n) -> int {\n  for (int i = 0; i < 3; ++i) {\n    n = n + i;\n  }\n  return n;\n}\n"),
    ("for-empty-init", "export function f (int n) -> int {\n  for (; n < 9; ) {\n    n = n + 4;\n  }\n  return n;\n}\n"),
    ("if", "export function f (int n) -> int {\n  if (n > 2) {\n    return 1;\n  }\n  return n;\n}\n"),
    ("if-else", "export function f (int n) -> int {\n  if (n > 2) {\n    n = 1;\n  }\n  else {\n    n = 2;\n  }\n  return n;\n}\n"),
    ("block", "export function f (int n) -> int {\n  {\n    n = n * 2;\n  }\n  return n;\n}\n"),
    ("return", "export function f (int n) -> int {\n  return n + 1;\n}\n"),
    ("return-const", "export function f (int n) -> float {\n  return 2.5;\n}\n"),
    ("nested-while", "export function f (int n) -> int {\n  while (n > 0) {\n    while (n > 5) {\n      n = n - 5;\n    }\n    n = n - 1;\n  }\n  return n;\n}\n"),
    ("do-continue", "export function f (int n) -> int {\n  do {\n    n = n - 1;\n    if (n == 4) {\n      continue;\n    }\n    n = n - 1;\n  }\n  while (n > 0)\n  return n;\n}\n"),
    # constants of equal value and different type in one function (uint constants arise from ++/-- on uint variables)
    ("uint-int-constants", "export function f (int n) -> int {\n  uint c = 0;\n  int i = 0;\n  while (i < n) {\n    ++i;\n    ++c;\n  }\n  return i + c;\n}\n"),
    ("uint-int-float-constants", "export function f (int n) -> float {\n  uint c = 1;\n  int i = 1;\n  float x = 1.0;\n  c--;\n  i--;\n  x = x + 1;\n  for (int k = 0; k < n; k++) {\n    c++;\n    x = x * 1.0 + 1;\n  }\n  return x + i + c;\n}\n"),
    ("int-float-same-value", "export function f (int n) -> float {\n  float a = 2;\n  int b = 2;\n  return n * 2 + 2.0 * a + b;\n}\n"),
    # instructions whose optional parts are absent: a return without value, a branch without predicate
    ("bare-return", "int g;\nexport function f (int n) -> void {\n  if (n < 1) {\n    return;\n  }\n  g = n;\n}\n"),
    ("bare-return-in-loop", "int g;\nexport function f (int n) -> void {\n  while (n > 0) {\n    g = g + n;\n    if (g > 8) {\n      return;\n    }\n    n = n - 1;\n  }\n  g = 0 - g;\n}\n"),
    ("for-without-test", "export function f (int n) -> int {\n  for (int i = 0; ; ++i) {\n    if (i > n) {\n      return i;\n    }\n  }\n  return 0;\n}\n"),
    ("void-while", "int g;\nexport function f (int n) -> void {\n  while (n > 0) {\n    g = g + n;\n    n = n - 1;\n  }\n}\n"),
]


def shards(tier):
    return 16


def same(a, b):
    if isinstance(a, float) and isinstance(b, float) and a != a and b != b:
        return True
    if isinstance(a, list) and isinstance(b, list):
        return len(a) == len(b) and all(same(x, y) for x, y in zip(a, b))
    if isinstance(a, dict) and isinstance(b, dict):
        return set(a) == set(b) and all(same(a[k], b[k]) for k in a)
    return sem.values_equal(a, b, 0.0)


_LOADER = [None]


def shard_loader():
    """one loader object for the whole shard, as a long-lived host application would keep it: the stored files are
    rewritten under the same names program after program, so a loader that remembers anything by name goes stale"""
    if _LOADER[0] is None:
        _LOADER[0] = nslapi.LinearIR.FilesystemModuleLoader()
    return _LOADER[0]


def check_program(R, rng, tmp, src, calls, label):
    from ..driver import time_limit, CaseTimeout
    try:
        with time_limit(120):
            _check_program(R, rng, tmp, src, calls, label)
    except CaseTimeout:
        nslapi.VM._VERIF_OBSERVER = None
        R.count("dropped_case_timeout")


def _check_program(R, rng, tmp, src, calls, label):
    """calls: [(fname, args, globals)]"""
    obs = vmobs.Observer()
    with open(os.path.join(tmp, "p.nsl"), "w") as f:
        f.write(src)
    for opt in (False, True):
        R.count("programs")
        comp = diff.Compiled(src, optimize=opt)
        # file names: the unoptimised module is stored as prog.nslir, the optimised one under a name with another / no
        # suffix right next to it (a loader that guesses suffixes must not confuse them)
        # ... or it overwrites the unoptimised module under the very same name (the later store must win)
        out_name = "prog.nslir" if not opt else rng.choice(["prog.O1", "prog", "prog.v2.nslir", "prog.nslir.O1", "prog.nslir", "prog.nslir"])
        rc, out = runner.nslc(tmp, "p.nsl", out_name, optimize=opt)
        R.count("nslc_processes")
        stored = rc == 0 and os.path.exists(os.path.join(tmp, out_name)) and os.path.getsize(os.path.join(tmp, out_name)) > 0
        rep = {"sources": {"main": src}, "optimize": opt, "calls": calls}
        if stored != comp.out.usable:
            R.violation("store-disagrees-with-compile:%s" % ("nslc-fails" if not stored else "nslc-succeeds"),
                        "%s (O%d): nslc.py %s (exit %s: %s) but the in-memory compile %s" %
                        (label, int(opt), "stored a module" if stored else "failed", rc, (out or "")[-160:].replace("\n", " / "),
                         "succeeds" if comp.out.usable else "does not produce a module (%s)" % (comp.out.reject or comp.out.post_exc)), rep)
            continue
        if not stored:
            R.count("rejected_by_both")
            continue
        R.evaluations += 1
        l0 = nslapi.listing(comp.out.ir)
        # (a) this process
        try:
            with nslapi.quiet():
                m1 = shard_loader().Load(os.path.join(tmp, out_name))
                # and through the loader every default-constructed Linker shares
                lk = nslapi.LinearIR.Linker()
                m1b = lk._Linker__loader.Load(os.path.join(tmp, out_name)) if hasattr(lk, "_Linker__loader") else m1
            l1 = nslapi.listing(m1)
            if nslapi.listing(m1b) != l1:
                l1 = nslapi.listing(m1b)
            R.count("same_process_loads")
        except Exception as e:
            R.violation("reload-fails:%s" % type(e).__name__, "%s (O%d): loading the stored module raises %s: %s" % (label, int(opt), type(e).__name__, e), rep)
            continue
        if l1 != l0:
            R.violation("listing-differs:same-process", "%s (O%d): the reloaded module lists differently from the in-memory module" % (label, int(opt)),
                        dict(rep, listing_memory=l0[:2000], listing_reloaded=l1[:2000]))
            continue
        if not comp.runnable:
            R.count("not_runnable")
            continue
        ref_results = []
        for fname, args, gl in calls:
            vm = diff.run_vm(comp, fname, args, gl, obs, 300000)
            ref_results.append(vm)
        # (b) fresh process
        res = runner.helper("loadrun", {"cwd": tmp, "modules": [out_name], "calls": [[f, a, g] for f, a, g in calls], "listing_of": out_name})
        R.count("loader_processes")
        if res.get("error"):
            R.violation("reload-fails-in-fresh-process:%s" % res["error"]["cls"], "%s (O%d): fresh process cannot load/link the stored module: %s"
                        % (label, int(opt), res["error"]), rep)
            continue
        if res["listing"] != l0:
            R.violation("listing-differs:fresh-process", "%s (O%d): the module reloaded in a fresh process lists differently" % (label, int(opt)),
                        dict(rep, listing_memory=l0[:2000], listing_reloaded=(res["listing"] or "")[:2000]))
            continue
        ok = True
        for (fname, args, gl), vm, got in zip(calls, ref_results, res["results"]):
            R.count("calls_compared")
            if vm.status == "nonterminating":
                continue
            if vm.status == "exception":
                if got["status"] != "exception" or got["cls"] != vm.exc["cls"]:
                    R.violation("behaviour-differs:failure", "%s (O%d): %s fails with %s in memory, reloaded: %s" % (label, int(opt), fname, vm.exc["cls"], got), rep)
                    ok = False
                    break
                continue
            if got["status"] != "ok" or not same(vm.value, got["value"]) or not all(same(vm.globals.get(k), got["globals"].get(k)) for k in gl):
                R.violation("behaviour-differs:value", "%s (O%d): %s%r returns %r / %r in memory, reloaded module gives %r"
                            % (label, int(opt), fname, args, vm.value, vm.globals, got), rep)
                ok = False
                break
        if ok:
            R.nontriv(src, opt)
            R.count("modules_roundtripped")
        # nslr.py for scalar signatures without globals
        for (fname, args, gl), vm in zip(calls, ref_results):
            if gl or vm.status != "ok" or not all(isinstance(v, (int, float)) for v in args.values()) or not isinstance(vm.value, (int, float)):
                continue
            fn = comp.out.ir.Functions[fname]
            ordered = [str(args[n]) for n in fn.Type.Arguments]
            try:
                r = subprocess.run([bootstrap.PYTHON, os.path.join(bootstrap.repo_path(), "nslr.py"), "run", out_name, fname] + ordered,
                                   cwd=tmp, env=runner.env_for(), stdout=subprocess.PIPE, stderr=subprocess.STDOUT, timeout=60)
            except subprocess.TimeoutExpired:
                continue
            R.count("nslr_processes")
            text = r.stdout.decode("utf-8", "replace")
            m = re.search(r"\) = (\S+)\s*$", text.strip())
            if r.returncode != 0 or not m:
                R.violation("nslr-fails", "%s (O%d): nslr.py run %s fails: %s" % (label, int(opt), fname, text[-200:].replace("\n", " / ")), rep)
            else:
                try:
                    val = float(m.group(1))
                except ValueError:
                    val = None
                if val is None or not same(float(vm.value), val):
                    R.violation("nslr-prints-other-value", "%s (O%d): nslr.py run %s prints %s, the in-memory module returns %r" % (label, int(opt), fname, m.group(1), vm.value), rep)
                else:
                    R.count("nslr_agree")
            break


def run_shard(tier, seed, shard, n, R):
    tmp = tempfile.mkdtemp(prefix="nslverif_c17_")
    try:
        for i, (kind, src0) in enumerate(FIRST_STATEMENT):
            if i % n != shard:
                continue
            gl = {"g": 1} if "int g;" in src0 else {}
            check_program(R, random.Random(i), tmp, src0, [("f", {"n": v}, gl) for v in (0, 3, 7)], "first statement: " + kind)
            R.count("first_statement_programs")
        for j in range(BUDGET[tier]):
            s = (seed * 1000003 + shard) * 100000 + j
            rng = random.Random(s)
            kind = j % 5
            if kind == 0:
                module = gcore.CoreGen(rng, gcore.Cfg(max_stmts=rng.randint(3, 12))).gen_module()
            elif kind == 1:
                module = gvec.VecGen(rng).gen_module()
            elif kind == 2:
                module = gcalls.CallGen(rng).gen_module()
            elif kind == 3:
                module = gstate.gen_module(rng)
            else:
                module = None
            if module is not None:
                src = print_module(module)
                calls = []
                for f in [x for x in module.funcs if x.exported][:4]:
                    for args, gl in gcore.gen_inputs(rng, module, f, 2):
                        calls.append((f.name, args, gl))
            else:
                src = whole.SEEDS[rng.randrange(len(whole.SEEDS))]
                if rng.random() < 0.5:
                    src = whole.mutate(src, rng, 1)
                calls = []
            check_program(R, rng, tmp, src, calls, "program %d" % s)
            if j == 0:
                R.sample({"source": src[:1200], "calls": calls[:2]})
    finally:
        shutil.rmtree(tmp, ignore_errors=True)


def finalize(M, tier):
    out = []
    if M.counters.get("modules_roundtripped", 0) == 0 and not M.violations:
        out.append("no module made the round trip through another process")
    return out


def replay(case):
    from ..driver import Result
    tmp = tempfile.mkdtemp(prefix="nslverif_c17r_")
    try:
        R = Result()
        check_program(R, random.Random(0), tmp, case["sources"]["main"], [tuple(c) for c in case.get("calls", [])], "replay")
        return bool(R.violations), {"violations": [v["what"][:300] for v in R.violations.values()]}
    finally:
        shutil.rmtree(tmp, ignore_errors=True)
