"""C05 — accepted programs do not go wrong.

Deciding monitor: exception classifier around everything that happens *after* the front-end gate
(observed at the pass boundary: all AST passes completed and returned true): lowering, IR passes at
both optimisation settings, linking, VM construction and execution of every exported function on
type-correct inputs, with the VM observer recording declared-index-range events and reads of
undefined values.  Outcome must be a value, ZeroDivisionError, or IndexError with an index observed
outside its declared range.
"""
import random

from .. import diff, nslapi, bootstrap
from ..gen import whole, core as gcore, vec as gvec, calls as gcalls
from ..lang import print_module
from ..mon import vmobs, astprobe

PROPERTY = "C05"
TECHNIQUE = "exception classifier after the observed front-end gate + index-range and def-before-use monitors in the VM hook, over mutated whole-language programs"
LEVEL_TEXT = ("Candidates: hand-written feature seeds, the repository's own NSL sources and programs of the strict generators, each also "
              "under 1-4 token-level mutations (type names, operators, identifiers, literals, swizzle masks, deletions, swaps). Every "
              "candidate the front end accepts is lowered, optimised (both settings), linked and executed on the VM for every "
              "exported function with values of the declared parameter and global types; any failure other than division by zero "
              "or an index observed outside its declared range is a violation, keyed by phase, exception class, raising function "
              "and instruction signature.")
LEVEL_NOTE = ("Trusted: the gate observation (pass-boundary proxy objects inside the real Compiler), the observer's declared-extent "
              "computation. Non-termination (step budget) and resource exhaustion (RecursionError, OverflowError, MemoryError) are "
              "dropped, not judged. Nothing predicts acceptance: rejected candidates are only counted.")
RULE = ("case = (source text, optimisation setting, function, inputs); non-trivial when the program passed the gate at both settings "
        "and the VM executed >= 5 distinct opcodes for the call; distinct by (source, setting, function, inputs).")
ASSUMPTIONS = ["inputs are generated from the declared types read from the compiled module", "globals are all set before a call"]
SHARD_TIMEOUT = {"quick": 900, "thorough": 5400}
BUDGET = {"quick": 700, "thorough": 22000}
DROP = ("RecursionError", "OverflowError", "MemoryError")


def shards(tier):
    return 16


# ------------------------------------------------- values from real type objects
def value_ir(t, rng):
    k = type(t).__name__
    if k == "IntegerType":
        if t.Unsigned:
            return rng.choice([0, 1, 2, 3, 5, 7, 10])
        return rng.choice([0, 1, -1, 2, 3, 5, -4, 7, 10])
    if k == "FloatType":
        return rng.choice([0.0, 1.0, -1.5, 2.5, 0.5, 3.0, -2.0, 4.0])
    if k == "VectorType":
        return [value_ir(t.ElementType, rng) for _ in range(t.Size)]
    if k == "MatrixType":
        return [[value_ir(t.ElementType, rng) for _ in range(t.ColumnCount)] for _ in range(t.RowCount)]
    if k == "ArrayType":
        def build(dims):
            if not dims:
                return value_ir(t.ElementType, rng)
            return [build(dims[1:]) for _ in range(dims[0])]
        return build(list(t.Size))
    if k == "StructureType":
        return {n: value_ir(ft, rng) for n, ft in t.Fields.items()}
    raise nslapi.Harness("cannot build a value of IR type %s" % k)


def value_ast(t, rng):
    k = type(t).__name__
    if k == "Integer":
        return rng.choice([0, 1, -1, 2, 3, 5, -4, 7, 10])
    if k == "UnsignedInteger":
        return rng.choice([0, 1, 2, 3, 5, 7, 10])
    if k == "Float":
        return rng.choice([0.0, 1.0, -1.5, 2.5, 0.5, 3.0, -2.0, 4.0])
    if k == "VectorType":
        return [value_ast(t.GetComponentType(), rng) for _ in range(t.GetComponentCount())]
    if k == "MatrixType":
        return [[value_ast(t.GetComponentType(), rng) for _ in range(t.GetColumnCount())] for _ in range(t.GetRowCount())]
    if k == "ArrayType":
        def build(dims):
            if not dims:
                return value_ast(t.GetComponentType(), rng)
            return [build(dims[1:]) for _ in range(dims[0])]
        return build(list(t.GetSize()))
    if k == "StructType":
        m = t.GetMembers()
        return {n: value_ast(m.GetFieldType(n), rng) for n in m.GetSymbolNames()}
    raise nslapi.Harness("cannot build a value of type %s" % k)


def classify(R, src, phase, exc, sig, detail, opt):
    key = "%s:%s:%s%s" % (phase, exc["cls"], exc.get("where", "?"), (":" + sig) if sig else "")
    R.violation(key, "accepted program fails in %s with %s (%s)%s" % (phase, exc["cls"], exc["msg"][:90], (" at " + sig) if sig else ""),
                dict({"sources": {"main": src}, "optimize": opt, "phase": phase, "exc": exc}, **detail))


def check_candidate(R, obs, rng, src, origin):
    """one candidate under a wall-clock allowance: a mutant can declare huge arrays or make the compiler crawl;
    that is resource exhaustion, dropped and counted like non-termination"""
    from ..driver import time_limit, CaseTimeout
    try:
        with time_limit(20):
            _check_candidate(R, obs, rng, src, origin)
    except CaseTimeout:
        nslapi.set_observer(None) if False else None
        try:
            nslapi.VM._VERIF_OBSERVER = None
        except Exception:
            pass
        R.count("dropped_case_timeout")
        R.add_to("timeout_sources", src[:160])


def _check_candidate(R, obs, rng, src, origin):
    R.count("candidates")
    gates = []
    for opt in (False, True):
        probe = {}

        def listener(kind, name, root, inner, probe=probe):
            # the AST is typed after compute-types and still intact before lowering (lowering replaces
            # statements by IR instructions in place)
            if kind == "AST" and name == "add-implicit-casts":
                probe["stores"] = astprobe.unchecked_stores(root)
        try:
            comp = diff.Compiled(src, optimize=opt, listener=listener)
        except nslapi.Harness as e:
            R.inconclusive.append(str(e))
            return
        gates.append(comp.out.gate)
        if not comp.out.accepted:
            R.count("rejected")
            R.add_to("reject_stages", "%s:%s" % (comp.out.reject["stage"], comp.out.reject["name"]))
            return
        if opt is False:
            R.count("accepted")
            R.count("accepted_from:" + origin)
            # stores the front end does not type-check: recorded known finding; such a program's later
            # behaviour is garbage-in and is not judged further
            if "stores" not in probe:
                R.inconclusive.append("AST probe did not run (pass 'add-implicit-casts' not seen)")
                return
            us = probe["stores"]
            if us:
                kinds = sorted({u[0] for u in us})
                for kd in kinds:
                    u = [x for x in us if x[0] == kd][0]
                    R.violation("frontend-accepts:%s" % kd,
                                "the front end accepts a %s (target %s, value %s) without check or conversion"
                                % (kd, u[1], u[2]), {"sources": {"main": src}, "unchecked": [list(map(str, x)) for x in us[:6]]})
                R.count("accepted_with_unchecked_store")
                return
        if comp.out.post_exc is not None:
            R.evaluations += 1
            classify(R, src, comp.out.post_exc.get("stage", "post"), comp.out.post_exc, None, {}, opt)
            continue
        if comp.link_exc is not None:
            R.evaluations += 1
            classify(R, src, "link", comp.link_exc, None, {}, opt)
            continue
        ir = comp.out.ir
        exported = [n for n in ir.Functions if not n.startswith("@")]
        try:
            gtypes = dict(comp.program.Globals)
        except Exception as e:
            R.inconclusive.append("program.Globals unreadable: %s" % e)
            return
        for fname in exported[:6]:
            fn = ir.Functions[fname]
            for rep in range(2):
                try:
                    args = {n: value_ir(t, rng) for n, t in fn.Type.Arguments.items()}
                    gl = {n: value_ast(t, rng) for n, t in gtypes.items()}
                except nslapi.Harness as e:
                    R.count("skipped_unbuildable_input")
                    break
                vm = diff.run_vm(comp, fname, args, gl, obs, 150000)
                R.evaluations += 1
                R.count("vm_runs")
                if vm.harness:
                    R.inconclusive.append("observer error: " + vm.harness[0])
                detail = {"function": fname, "inputs": {"args": args, "globals": gl}, "events": vm.events}
                if vm.status == "nonterminating":
                    R.count("dropped_nonterminating")
                    continue
                bad = False
                if vm.status == "exception":
                    cls = vm.exc["cls"]
                    if cls in DROP:
                        R.count("dropped_" + cls)
                        continue
                    if cls == "ZeroDivisionError":
                        R.count("defined_failure_division_by_zero")
                    elif cls == "IndexError" and vm.oob:
                        R.count("defined_failure_index_out_of_range")
                    elif cls == "TypeError" and vm.oob and "indices must be integers" not in vm.exc["msg"] and False:
                        pass
                    else:
                        bad = True
                        classify(R, src, "vm", vm.exc, vm.sig, detail, opt)
                if not bad:
                    for e in vm.events:
                        if e["kind"] in diff.UNDEF_EVENTS or e["kind"] == "non-integer-index":
                            bad = True
                            R.violation("vm-monitor:%s:%s" % (e["kind"], e.get("op")), "accepted program: %s" % e,
                                        dict({"sources": {"main": src}, "optimize": opt, "phase": "vm"}, **detail))
                            break
                if not bad and len(vm.ops) >= 5:
                    R.nontriv(src, opt, fname, args, gl)
                for o in vm.ops:
                    R.add_to("opcodes", o)


def linked_split(R, obs, rng, label):
    """accepted programs made of several modules (import chains, diamonds; generator of C16): compiling every module,
    linking the roots (fresh loader / the linker's default loader) and running every exported root function must not fail
    internally either"""
    import os
    import pickle
    import shutil
    import tempfile
    from ..gen import modules as gmod
    sp = gmod.gen(rng)
    tmp = tempfile.mkdtemp(prefix="nslverif_c05_")
    old = os.getcwd()
    texts = {n: sp.layouts[n][0] for n in sp.layouts}
    order = [n for n, _, _ in sp.libs] + [n for n, _, _, _ in sp.roots]
    meta = {"sources": texts, "module_order": order, "roots": [n for n, _, _, _ in sp.roots]}
    try:
        os.chdir(tmp)
        opt = bool(rng.getrandbits(1))
        mods = {}
        for name in [n for n, _, _ in sp.libs] + [n for n, _, _, _ in sp.roots]:
            out = nslapi.compile_source(sp.layouts[name][0], optimize=opt)
            R.count("split_modules_compiled")
            if not out.accepted:
                R.count("split_module_rejected(C16 territory)")
                return
            if out.post_exc is not None:
                R.evaluations += 1
                classify(R, sp.layouts[name][0], out.post_exc.get("stage", "post"), out.post_exc, None, dict(meta, module=name), opt)
                return
            if os.path.dirname(name):
                os.makedirs(os.path.dirname(name), exist_ok=True)
            with open(name + ".nslir", "wb") as f:
                pickle.dump(out.ir, f)
            mods[name] = out.ir
        R.evaluations += 1
        try:
            with nslapi.quiet():
                linker = nslapi.LinearIR.Linker() if rng.random() < 0.5 else nslapi.LinearIR.Linker(loader=nslapi.LinearIR.FilesystemModuleLoader())
                for n, _, _, _ in sp.roots:
                    linker.AddModule(mods[n])
                program = linker.Link()
        except Exception as e:
            classify(R, texts[sp.roots[0][0]], "link", nslapi.exc_info(e), None, dict(meta), opt)
            return
        R.count("split_programs_linked")

        class _C:
            pass
        comp = _C()
        comp.program = program
        for _, fs, _, gl in sp.roots:
            for f in fs:
                if not f.exported:
                    continue
                for x in (0, 3, -2):
                    gl0 = {g[1]: 1 for _, _, _, gl2 in sp.roots for g in gl2}
                    vm = diff.run_vm(comp, f.name, {"x": x}, gl0, obs, 150000)
                    R.evaluations += 1
                    R.count("vm_runs")
                    R.count("split_vm_runs")
                    if vm.status == "exception" and vm.exc["cls"] not in DROP and vm.exc["cls"] != "ZeroDivisionError":
                        classify(R, texts[sp.roots[0][0]], "vm", vm.exc, vm.sig, dict(meta, function=f.name, inputs={"args": {"x": x}, "globals": gl0}), opt)
                        return
        R.nontriv("split", repr(sorted(texts.items())), opt)
    finally:
        os.chdir(old)
        shutil.rmtree(tmp, ignore_errors=True)


def run_shard(tier, seed, shard, n, R):
    obs = vmobs.Observer()
    rng = random.Random(seed * 7919 + shard)
    seeds = list(whole.SEEDS) + whole.repo_sources(bootstrap.repo_path())
    R.count("seed_programs", len(seeds) if shard == 0 else 0)
    if shard == 0:
        # every recorded known finding is re-demonstrated on its own witness in every run
        from ..driver import load_known
        for kf in load_known().get("known", []):
            if kf.get("property") == PROPERTY and kf.get("witness"):
                check_candidate(R, obs, rng, kf["witness"], "known-finding-witness")
    for i, s in enumerate(seeds):
        if i % n == shard:
            check_candidate(R, obs, rng, s, "seed")
            if i < 3:
                R.sample({"origin": "seed", "source": s[:1200]})
    # every binary operator on every pair of spellable operand types, as an expression statement and as a condition: whatever
    # the front end accepts of these must lower, link and run (the typing itself is C09's)
    from ..ref import typing as tspec
    from ..lang import type_str
    S = tspec.spellable()
    k = 0
    for op in tspec.OPS:
        for L in S:
            for Rr in S:
                k += 1
                if k % n != shard:
                    continue
                ctx = "  a %s b;\n" % op if (k // n) % 2 == 0 else "  int r = 0;\n  if (a %s b) {\n    r = 1;\n  }\n" % op
                check_candidate(R, obs, rng, "export function f (%s a, %s b) -> void {\n%s}\n" % (type_str(L), type_str(Rr), ctx), "operator-grid")
                R.count("operator_grid_programs")
    R.flags["operator_grid_all_spellable_triples"] = True
    for j in range(BUDGET[tier]):
        if j % 25 == 0:
            linked_split(R, obs, random.Random((seed * 1000003 + shard) * 100000 + j), "split")
        r = rng.random()
        if r < 0.45:
            base = rng.choice(seeds)
            origin = "seed-mutant"
        else:
            s = (seed * 1000003 + shard) * 100000 + j
            grng = random.Random(s)
            try:
                kind = j % 3
                if kind == 0:
                    module = gcore.CoreGen(grng, gcore.Cfg(max_stmts=grng.randint(3, 12))).gen_module()
                elif kind == 1:
                    module = gvec.VecGen(grng).gen_module()
                else:
                    module = gcalls.CallGen(grng).gen_module()
            except RecursionError:
                continue
            base = print_module(module)
            origin = "generated-mutant"
            if rng.random() < 0.15:
                check_candidate(R, obs, rng, base, "generated")
                continue
        src = whole.mutate(base, rng)
        check_candidate(R, obs, rng, src, origin)
        if j == 1:
            R.sample({"origin": origin, "source": src[:1200]})


def finalize(M, tier):
    out = []
    if M.counters.get("accepted", 0) == 0:
        out.append("no candidate was accepted")
    if M.counters.get("vm_runs", 0) == 0:
        out.append("no accepted program was executed")
    return out


def _replay_split(case):
    import os
    import pickle
    import shutil
    import tempfile
    tmp = tempfile.mkdtemp(prefix="nslverif_c05r_")
    old = os.getcwd()
    try:
        os.chdir(tmp)
        mods = {}
        for name in case["module_order"]:
            out = nslapi.compile_source(case["sources"][name], optimize=bool(case.get("optimize")))
            if not out.accepted:
                return False, {"rejected": name}
            if out.post_exc is not None:
                return True, {"post": out.post_exc, "module": name}
            if os.path.dirname(name):
                os.makedirs(os.path.dirname(name), exist_ok=True)
            with open(name + ".nslir", "wb") as f:
                pickle.dump(out.ir, f)
            mods[name] = out.ir
        try:
            linker = nslapi.LinearIR.Linker(loader=nslapi.LinearIR.FilesystemModuleLoader())
            for n in case["roots"]:
                linker.AddModule(mods[n])
            program = linker.Link()
        except Exception as e:
            return True, {"link": nslapi.exc_info(e)}
        if "function" not in case:
            return False, {}

        class _C:
            pass
        comp = _C()
        comp.program = program
        vm = diff.run_vm(comp, case["function"], case["inputs"]["args"], case["inputs"].get("globals", {}), vmobs.Observer(), 2000000)
        return vm.status == "exception" and vm.exc["cls"] not in DROP and vm.exc["cls"] != "ZeroDivisionError", {"status": vm.status, "exc": vm.exc}
    finally:
        os.chdir(old)
        shutil.rmtree(tmp, ignore_errors=True)


def replay(case):
    if "module_order" in case:
        return _replay_split(case)
    src = case["sources"]["main"]
    comp = diff.Compiled(src, optimize=bool(case.get("optimize")))
    detail = {"gate": comp.out.gate, "post": comp.out.post_exc, "link": comp.link_exc}
    if not comp.out.accepted:
        return False, detail
    if comp.out.post_exc is not None or comp.link_exc is not None:
        return True, detail
    if "function" not in case:
        return False, detail
    obs = vmobs.Observer()
    vm = diff.run_vm(comp, case["function"], case["inputs"]["args"], case["inputs"]["globals"], obs, 2000000)
    detail.update({"status": vm.status, "exc": vm.exc, "sig": vm.sig, "oob": vm.oob, "events": vm.events})
    if vm.status == "exception":
        cls = vm.exc["cls"]
        if cls in DROP or cls == "ZeroDivisionError" or (cls == "IndexError" and vm.oob):
            return False, detail
        return True, detail
    return any(e["kind"] in diff.UNDEF_EVENTS for e in vm.events), detail
