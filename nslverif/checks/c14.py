"""C14 — every compiled IR module is well-formed.

Deciding monitors: the well-formedness checker (ref/irwf.py: unique references, operands defined by
live value-producing instructions or constants of the function, must-defined dataflow over the
control-flow graph as the VM executes it, branch targets, call targets/arity after linking) hooked
at every pass boundary of the real compiler (after lowering and after each IR pass, both
optimisation settings) and on the linked program; plus the dynamic def-before-use monitor in the
VM hook while the programs run.
"""
import random

from .. import diff, nslapi
from ..gen import core as gcore, vec as gvec, calls as gcalls, fwdtemplates, directed, vecdirected
from ..lang import print_module
from ..mon import vmobs, passes
from ..ref import irwf

PROPERTY = "C14"
TECHNIQUE = "structural + dataflow invariant checker on the live IR at every pass boundary and after linking; dynamic def-before-use monitor in the VM hook"
LEVEL_TEXT = ("For every program of the workload (directed families of C01-C04, forwarding templates, statement patterns the optimiser rewrites placed behind break / continue / return, multi-module programs linked through a fresh and through the linker's default loader, seeded random scalar / vector / "
              "call-graph programs) and both optimisation settings, the live IR is checked after lowering and after every IR pass, "
              "and the linked program once more (call targets and arity); a finding is attributed to the first pass after which it "
              "appears. The programs are also executed with the observer checking that every operand read is defined.")
LEVEL_NOTE = ("Trusted: nslverif/ref/irwf.py. Operands are matched by reference number (a stale Python object carrying the number of a "
              "live value is harmless to every consumer and is not flagged). Only what the compiler accepts is checked.")
RULE = ("case = (source, optimisation setting); non-trivial when some function has >= 2 basic blocks or a pass removed/replaced >= 1 "
        "instruction; distinct by (source, setting).")
ASSUMPTIONS = ["the must-defined analysis models control flow exactly as VM.__Execute does (flattened blocks, fallthrough)"]
SHARD_TIMEOUT = {"quick": 900, "thorough": 5400}
BUDGET = {"quick": 200, "thorough": 6000}


def shards(tier):
    return 16


def check_source(R, obs, name, src, calls, family):
    from ..driver import time_limit, CaseTimeout
    try:
        with time_limit(30):
            _check_source(R, obs, name, src, calls, family)
    except CaseTimeout:
        nslapi.VM._VERIF_OBSERVER = None
        R.count("dropped_case_timeout")


def _check_source(R, obs, name, src, calls, family):
    for opt in (False, True):
        rec = passes.BoundaryRecorder(check=True)
        comp = diff.Compiled(src, optimize=opt, listener=rec)
        R.evaluations += 1
        R.count("compilations")
        if rec.errors:
            R.inconclusive.append("pass-boundary recorder failed: " + rec.errors[0])
        if not comp.out.accepted:
            R.count("rejected")
            continue
        R.count("boundaries_checked", len(rec.sizes))
        removed = sum(v for v in rec.removed_by().values() if v > 0)
        multi = rec.module is not None and any(len(f.BasicBlocks) >= 2 for f in rec.module.Functions.values())
        for pname, f in rec.findings:
            key = "%s:after-%s:%s" % (f["rule"], pname, "O1" if opt else "O0")
            R.violation(key, "%s (%s): %s in %s after pass %s: %s" % (name, "O1" if opt else "O0", f["rule"], f["fn"], pname,
                                                                       {k: v for k, v in f.items() if k not in ("rule", "fn")}),
                        {"sources": {"main": src}, "case": name, "optimize": opt, "finding": f, "pass": pname})
        if not comp.runnable:
            R.count("not_runnable(C05 territory)")
            continue
        fs = irwf.check_program(comp.program)
        R.count("linked_programs_checked")
        seen = {(f["rule"], f["fn"], f.get("ref")) for _, f in rec.findings}
        for f in fs:
            if (f["rule"], f["fn"], f.get("ref")) in seen:
                continue
            key = "%s:linked:%s" % (f["rule"], "O1" if opt else "O0")
            R.violation(key, "%s (%s): %s in %s of the linked program: %s" % (name, "O1" if opt else "O0", f["rule"], f["fn"], f),
                        {"sources": {"main": src}, "case": name, "optimize": opt, "finding": f, "pass": "link"})
        if multi or removed:
            R.nontriv(src, opt)
        # dynamic def-before-use
        for fname, inputs in calls:
            for args, gl in inputs[:2]:
                vm = diff.run_vm(comp, fname, args, gl, obs, 300000)
                R.count("vm_runs")
                for e in vm.events:
                    if e["kind"] in diff.UNDEF_EVENTS:
                        R.violation("dynamic:%s:%s:%s" % (e["kind"], e.get("op"), "O1" if opt else "O0"),
                                    "%s: %s" % (name, e), {"sources": {"main": src}, "case": name, "optimize": opt, "function": fname,
                                                           "inputs": {"args": args, "globals": gl}, "event": e})
                        break


DEAD_TAILS = [
    ("cast", "float x = 3;\n      r = r + x;"),
    ("store-load", "int k = 2;\n      k = k + 1;\n      r = r + k;"),
    ("copy", "float y = r;\n      y = y * 2;\n      r = y;"),
    ("param", "n = n + 1;\n      r = r + n;"),
    ("global", "g = 7;\n      r = r + g * 2;"),
    ("index", "int[4] t;\n      t[1] = 5;\n      int j = 1;\n      r = r + t[j];"),
]


def dead_code_cases():
    """statements the optimisation passes rewrite (constant conversions, store-then-load), placed *behind* a break, continue
    or return in the same compound statement: never executed, but still part of the module and still to be well-formed"""
    out = []
    for tname, tail in DEAD_TAILS:
        for flow in ("break", "continue", "return r"):
            for loop in ("for (int i = 0; i < n; ++i)", "while (r < n)", "do"):
                close = "} while (r < n)" if loop == "do" else "}"
                for guarded in (False, True):
                    inner = "%s;\n      %s" % (flow, tail)
                    if guarded:
                        inner = "if (n > 2) {\n      %s\n      }" % inner
                    src = ("int g;\nexport function f (int n) -> float {\n  float r = 0.5;\n  %s {\n      r = r + 1.0;\n      %s\n  %s\n  return r;\n}\n"
                           % (loop, inner, close))
                    out.append(("dead-code:%s:%s:%s:%s" % (tname, flow.split()[0], loop.split()[0], "guarded" if guarded else "plain"), src))
        # behind a return at function level and inside a plain block
        out.append(("dead-code:%s:return:function" % tname, "int g;\nexport function f (int n) -> float {\n  float r = 0.5;\n  return r;\n      %s\n}\n" % tail))
        out.append(("dead-code:%s:return:block" % tname,
                    "int g;\nexport function f (int n) -> float {\n  float r = 0.5;\n  {\n    return r;\n      %s\n  }\n  return r;\n}\n" % tail))
    return out


def run_shard(tier, seed, shard, n, R):
    obs = vmobs.Observer()
    i = 0
    for name, src in dead_code_cases():
        i += 1
        if i % n == shard:
            check_source(R, obs, name, src, [("f", [({"n": 3}, {"g": 0}), ({"n": 0}, {"g": 0})])], "dead-code")
            R.count("dead_code_cases")
    for name, module, fname, inputs in fwdtemplates.cases():
        i += 1
        if i % n == shard:
            check_source(R, obs, name, print_module(module), [(fname, inputs)], "template")
    for c in directed.all_cases():
        i += 1
        if i % n == shard:
            check_source(R, obs, c[0], print_module(c[1]), [(c[2], c[3])], "directed")
    for fam, module, calls in vecdirected.all_cases():
        i += 1
        if i % n == shard:
            check_source(R, obs, fam, print_module(module), calls, "directed-vector")
    for name, module, calls in gcalls.directed_cases():
        i += 1
        if i % n == shard:
            check_source(R, obs, name, print_module(module), calls, "directed-calls")
    R.flags["directed_families_and_templates"] = True
    for j in range(BUDGET[tier]):
        s = (seed * 1000003 + shard) * 100000 + j
        rng = random.Random(s)
        kind = j % 3
        try:
            if kind == 0:
                module = gcore.CoreGen(rng, gcore.Cfg(max_stmts=rng.randint(3, 16))).gen_module()
            elif kind == 1:
                module = gvec.VecGen(rng).gen_module()
            else:
                module = gcalls.CallGen(rng).gen_module()
        except RecursionError:
            continue
        f = [x for x in module.funcs if x.exported][-1]
        src = print_module(module)
        check_source(R, obs, "random:%d" % s, src, [(f.name, gcore.gen_inputs(rng, module, f, 2))], "random")
        R.count("random_programs")
        if j == 0:
            R.sample({"case": "random:%d" % s, "source": src})
        if j % 10 == 0:
            check_linked_split(R, rng, "split:%d" % s)


def check_linked_split(R, rng, label):
    """several modules importing each other, linked: call targets and arities across module boundaries"""
    import os
    import pickle
    import shutil
    import tempfile
    from ..gen import modules as gmod
    sp = gmod.gen(rng)
    tmp = tempfile.mkdtemp(prefix="nslverif_c14_")
    old = os.getcwd()
    try:
        os.chdir(tmp)
        mods = {}
        for name in [n for n, _, _ in sp.libs] + [n for n, _, _, _ in sp.roots]:
            out = nslapi.compile_source(sp.layouts[name][0], optimize=bool(rng.getrandbits(1)))
            if not out.usable:
                R.count("split_module_not_compiled(C16 territory)")
                return
            if os.path.dirname(name):
                os.makedirs(os.path.dirname(name), exist_ok=True)
            with open(name + ".nslir", "wb") as f:
                pickle.dump(out.ir, f)
            mods[name] = out.ir
        roots = [mods[n] for n, _, _, _ in sp.roots]
        try:
            with nslapi.quiet():
                # every other link uses the linker's own default loader (one object for the whole process: this shard
                # links many different programs whose modules carry the same names), the others a fresh loader
                if rng.random() < 0.5:
                    linker = nslapi.LinearIR.Linker()
                    R.count("links_with_the_default_loader")
                else:
                    linker = nslapi.LinearIR.Linker(loader=nslapi.LinearIR.FilesystemModuleLoader())
                for m in roots:
                    linker.AddModule(m)
                program = linker.Link()
        except Exception as e:
            R.count("split_link_failed(C16 territory)")
            return
        R.evaluations += 1
        R.count("linked_multi_module_programs_checked")
        for f in irwf.check_program(program):
            R.violation("%s:linked-multi-module" % f["rule"], "%s: %s in %s of a program linked from %d modules: %s" % (label, f["rule"], f["fn"], len(mods), f),
                        {"sources": {n: sp.layouts[n][0] for n in sp.layouts}, "finding": f, "pass": "link"})
        # the same compiled module objects linked a second time by a new linker (a build tool that links a test program and
        # then the real one): that program must be complete as well
        try:
            with nslapi.quiet():
                linker2 = nslapi.LinearIR.Linker(loader=nslapi.LinearIR.FilesystemModuleLoader())
                for m in reversed(roots):
                    linker2.AddModule(m)
                program2 = linker2.Link()
        except Exception as e:
            R.violation("second-link-of-the-same-modules-fails:%s" % type(e).__name__, "%s: linking the same module objects a second time raises %s: %s"
                        % (label, type(e).__name__, str(e)[:100]), {"sources": {n: sp.layouts[n][0] for n in sp.layouts}, "pass": "link-again"})
            return
        R.evaluations += 1
        R.count("linked_again_programs_checked")
        for f in irwf.check_program(program2):
            R.violation("%s:linked-again" % f["rule"], "%s: %s in %s of the program a second link of the same module objects gives: %s" % (label, f["rule"], f["fn"], f),
                        {"sources": {n: sp.layouts[n][0] for n in sp.layouts}, "finding": f, "pass": "link-again"})
            break
        R.nontriv(repr(sorted((n, sp.layouts[n][0]) for n in sp.layouts)))
    finally:
        os.chdir(old)
        shutil.rmtree(tmp, ignore_errors=True)


def finalize(M, tier):
    out = []
    if M.counters.get("boundaries_checked", 0) == 0:
        out.append("no pass boundary was checked")
    if M.counters.get("linked_programs_checked", 0) == 0:
        out.append("no linked program was checked")
    return out


def replay(case):
    src = case["sources"]["main"]
    rec = passes.BoundaryRecorder(check=True)
    comp = diff.Compiled(src, optimize=bool(case.get("optimize")), listener=rec)
    fs = [(p, f) for p, f in rec.findings]
    if comp.runnable:
        fs += [("link", f) for f in irwf.check_program(comp.program)]
    detail = {"findings": fs[:10]}
    bad = bool(fs)
    if "function" in case and comp.runnable:
        obs = vmobs.Observer()
        vm = diff.run_vm(comp, case["function"], case["inputs"]["args"], case["inputs"]["globals"], obs, 2000000)
        ev = [e for e in vm.events if e["kind"] in diff.UNDEF_EVENTS]
        detail["events"] = ev
        bad = bad or bool(ev)
    return bad, detail
