"""C20 — reported source positions designate the text they talk about.

Deciding monitors: (a) contracts on the real SourceMapping.GetLineFromOffset / GetLineStartOffset and
Location.__str__ against a naive recount of the source text, exhaustively over all texts of length
<= 10 over {a, newline} and every offset, and on every call made while programs are parsed; (b) span
probe: every located node (identifier, literal, declaration, parameter) of the tree the real parser
returns must span exactly the token the generator printed there, under random layouts; (c) after the
`update-locations` pass every node's span must contain its children's spans; (d) diagnostic recorder:
the two ranges of a redeclaration message must designate the new name and the earlier declaration.
"""
import itertools
import random
import re

from .. import nslapi
from ..checks import c08
from ..gen import core as gcore, vec as gvec, layout as layout_gen, calls as gcalls
from ..lang import module_tokens, join_tokens
from ..mon import contracts, diag

PROPERTY = "C20"
TECHNIQUE = "contracts on the real offset->line mapping and Location.__str__ vs naive recount (exhaustive small scope) + span probe on every located AST node under layout fuzz + diagnostic recorder"
LEVEL_TEXT = ("Exhaustive: all 2 047 texts of length <= 10 over {a, newline} x every offset and every line, at the mapping interface. "
              "Sampled: seeded random programs (scalar, vector, call-graph generators) printed under random layouts (several lines, "
              "blank lines, tabs, leading text); every identifier, literal, declaration and parameter node of the parsed tree must "
              "span exactly its token; Location strings must equal the recount; after update-locations parents contain children; "
              "redeclaration diagnostics under layouts must name the two declarations' positions.")
LEVEL_NOTE = ("Trusted: the token offsets computed by re-scanning the printed text for the generator's token sequence; the naive "
              "recount. Line:column convention as documented in Location.__str__: 1-based, end = exclusive end offset - line start "
              "+ 1. A declaration's range may end at its name or at the end of its initialiser (after update-locations).")
RULE = ("case = (text, offset) at the interface / (program, layout) for the probes; non-trivial layout = >= 1 line break inside a "
        "statement and >= 1 tab or leading text; distinct by text.")
ASSUMPTIONS = ["layouts never split or merge tokens"]
SHARD_TIMEOUT = {"quick": 900, "thorough": 3600}
BUDGET = {"quick": 40, "thorough": 500}


def shards(tier):
    return 16


def token_spans(text, tokens):
    spans = []
    pos = 0
    for t in tokens:
        i = text.find(t, pos)
        if i < 0:
            raise nslapi.Harness("token %r not found in the laid-out text" % t)
        spans.append((i, i + len(t), t))
        pos = i + len(t)
    return spans


def literal_value(tok):
    t = tok
    try:
        if re.match(r"^[+-]?0[xX][0-9a-fA-F]+$", t):
            return int(t, 16)
        if re.match(r"^0[0-7]+$", t):
            return int(t, 8)
        if re.match(r"^[+-]?[0-9]+$", t):
            return int(t)
        return float(t[:-1] if t[-1] in "fF" else t)
    except ValueError:
        return None


def children(node):
    out = []
    try:
        node.ForEachChild(lambda c, ctx=None: out.append(c))
    except Exception:
        pass
    return out


def loc_of(node):
    try:
        l = node.GetLocation()
        if l.IsUnknown:
            return None
        return l
    except Exception:
        return None


def probe_tree(R, root, text, spans, label, layout_kind, after_update):
    """walk the real AST: located leaf nodes must span exactly their token; parents contain children (after update)"""
    by_span = {(b, e): t for b, e, t in spans}
    starts = {b: (e, t) for b, e, t in spans}
    stack = [(root, None)]
    seen = 0
    while stack:
        node, parent = stack.pop()
        k = type(node).__name__
        l = loc_of(node)
        if l is not None:
            b, e = l.GetBegin(), l.GetEnd()
            s = str(l)      # evaluates the Location.__str__ contract as well
            if k in ("PrimaryExpression", "LiteralExpression", "Argument") or (k == "VariableDeclaration" and not after_update):
                if not after_update or k != "VariableDeclaration":
                    seen += 1
                    tok = by_span.get((b, e))
                    want = None
                    try:
                        want = node.GetName() if k != "LiteralExpression" else None
                    except Exception:
                        pass
                    if tok is None:
                        R.violation("span-is-not-a-token:%s" % k, "%s: %s node spans [%d,%d) = %r, which is not one token of the source"
                                    % (label, k, b, e, text[b:e][:20]), {"sources": {"main": text}, "node": k, "span": [b, e]})
                        return seen
                    if k == "LiteralExpression":
                        v = literal_value(tok)
                        if v is None or v != node.GetValue():
                            R.violation("span-designates-other-text:LiteralExpression", "%s: literal %r located at %r" % (label, node.GetValue(), tok),
                                        {"sources": {"main": text}, "node": k, "span": [b, e]})
                            return seen
                    elif want is not None and tok != want:
                        ctx = type(parent).__name__ if parent is not None else "?"
                        R.violation("span-designates-other-text:%s:in-%s" % (k, ctx), "%s: %s '%s' located at [%d,%d) = %r"
                                    % (label, k, want, b, e, tok), {"sources": {"main": text}, "node": k, "name": want, "span": [b, e]})
                        return seen
            elif k == "VariableDeclaration":
                seen += 1
                name = node.GetName()
                if b not in starts or starts[b][1] != name:
                    R.violation("declaration-range-does-not-begin-at-its-name", "%s: declaration of %s ranges [%d,%d) = %r"
                                % (label, name, b, e, text[b:e][:30]), {"sources": {"main": text}, "node": k, "name": name, "span": [b, e]})
                    return seen
            if after_update:
                for c in children(node):
                    cl = loc_of(c)
                    if cl is not None and not (b <= cl.GetBegin() and cl.GetEnd() <= e):
                        R.violation("parent-span-does-not-cover-child:%s>%s" % (k, type(c).__name__),
                                    "%s: %s spans [%d,%d) but its %s child spans [%d,%d)" % (label, k, b, e, type(c).__name__, cl.GetBegin(), cl.GetEnd()),
                                    {"sources": {"main": text}, "node": k, "span": [b, e]})
                        return seen
        for c in children(node):
            stack.append((c, node))
    return seen


def check_program(R, rng, tokens, label, tier):
    nl = 2 if tier == "quick" else 4
    texts = [("canonical", join_tokens(tokens))] + [("random", layout_gen.layout(tokens, rng, allow_dot_glue=True)) for _ in range(nl)]
    # the same with Windows line breaks (the lexer skips the carriage return; positions refer to the text as given)
    texts.append(("crlf", layout_gen.layout(tokens, rng, allow_dot_glue=True).replace("\n", "\r\n")))
    for kind, text in texts:
        R.evaluations += 1
        try:
            spans = token_spans(text, tokens)
        except nslapi.Harness as e:
            R.inconclusive.append(str(e))
            return
        m = c08.parse(text)
        if m is None:
            R.count("did_not_parse")
            continue
        n = probe_tree(R, m, text, spans, label, kind, False)
        R.count("located_nodes_checked", n)
        # after update-locations, inside a real compilation
        box = {}

        def listener(k, name, root, inner, box=box):
            if k == "AST" and name == "update-locations":
                box["n"] = probe_tree(R, root, text, spans, label + " after update-locations", kind, True)
        nslapi.compile_source(text, listener=listener)
        R.count("nodes_checked_after_update", box.get("n", 0))
        if kind == "random" and "\n" in text.strip() and ("\t" in text or text[:1] in " \n\t"):
            R.nontriv(text)
    return


REDECL = [
    # (tokens, index of the earlier declaration's name token, index of the new one, init-end token index of the new decl or None, of the earlier or None)
    ("nested-block", "export function f ( int a ) -> int { int x = 1 ; { float x = 2.5 ; } return x ; }".split(), "x"),
    ("parameter", "export function f ( int a ) -> int { int b = 2 ; if ( b > 1 ) { int a = 3 ; } return b ; }".split(), "a"),
    ("global", "float gg ; export function f ( int a ) -> int { int gg = a + 1 ; return gg ; }".split(), "gg"),
    ("loop-header", "export function f ( int n ) -> int { int s = 0 ; for ( int i = 0 ; i < n ; ++ i ) { int i = 5 ; s = s + i ; } return s ; }".split(), "i"),
    ("no-initialiser", "export function f ( int n ) -> int { int s ; while ( n > 0 ) { float s ; n = n - 1 ; } return s ; }".split(), "s"),
]


def check_redeclaration(R, rng, tier):
    for name, tokens, var in REDECL:
        for li in range(3 if tier == "quick" else 12):
            text = join_tokens(tokens) if li == 0 else layout_gen.layout(tokens, rng)
            spans = token_spans(text, tokens)
            decl_idx = [i for i, t in enumerate(tokens) if t == var and i > 0 and tokens[i - 1] in ("int", "float")]
            first, second = decl_idx[0], decl_idx[1]
            log = diag.start()
            out = nslapi.compile_source(text)
            log = diag.stop()
            R.evaluations += 1
            msgs = [d for d in log if d["code"] == 2401]
            if out.accepted or not msgs:
                R.count("redeclaration_not_diagnosed(C12 territory)")
                continue
            mm = re.search(r"\(([0-9:\-]+)\) is already declared here ([0-9:\-]+)", msgs[0]["text"])
            if not mm:
                R.inconclusive.append("cannot parse the redeclaration message: %r" % msgs[0]["text"])
                continue

            def candidates(idx):
                b, e, _ = spans[idx]
                out_ = {contracts.naive_location_string(text, b, e)}
                # range through the end of the initialiser
                if tokens[idx + 1] == "=":
                    j = idx + 2
                    while tokens[j] != ";":
                        j += 1
                    out_.add(contracts.naive_location_string(text, b, spans[j - 1][1]))
                return out_
            new_ok = mm.group(1) in candidates(second)
            old_ok = mm.group(2) in candidates(first)
            R.count("redeclaration_messages_checked")
            if not (new_ok and old_ok):
                which = "new-declaration" if not new_ok else "earlier-declaration"
                R.violation("diagnostic-range-wrong:%s:%s" % (name, which),
                            "redeclaration of %s: message says %r; the new name is at %s, the earlier declaration at %s"
                            % (var, msgs[0]["text"], sorted(candidates(second)), sorted(candidates(first))), {"sources": {"main": text}, "message": msgs[0]["text"]})
            elif li > 0:
                R.nontriv("redecl", text)


def mapping_exhaustive(R, shard, n):
    A = nslapi.nsl.ast
    i = 0
    for ln in range(0, 11):
        for chars in itertools.product("a\n", repeat=ln):
            i += 1
            if i % n != shard:
                continue
            text = "".join(chars)
            sm = A.SourceMapping(text)
            for off in range(len(text) + 1):
                R.evaluations += 1
                try:
                    sm.GetLineFromOffset(off)
                except Exception as e:
                    R.violation("mapping-raises:%s" % type(e).__name__, "GetLineFromOffset(%d) on %r raised %s" % (off, text, e), {"text": text, "offset": off})
            for line in range(text.count("\n") + 1):
                try:
                    sm.GetLineStartOffset(line)
                except Exception as e:
                    R.violation("mapping-raises:%s" % type(e).__name__, "GetLineStartOffset(%d) on %r raised %s" % (line, text, e), {"text": text, "line": line})
            # spans: every pair
            if ln <= 6:
                for b in range(len(text) + 1):
                    for e_ in range(b, len(text) + 1):
                        str(A.Location((b, e_), sm))
            R.nontriv("map", text)


def report(R, rec):
    for f in rec.findings:
        R.violation("contract:%s" % f["kind"], f["detail"], {"text": f.get("text"), "detail": f["detail"]})
    rec.findings = []


def run_shard(tier, seed, shard, n, R):
    rec = contracts.PositionRecorder()
    contracts.install_positions(rec)
    mapping_exhaustive(R, shard, n)
    R.flags["all_texts_upto_10_over_a_newline"] = True
    report(R, rec)
    R.count("contract_evaluations_exhaustive", rec.evaluations + rec.str_evaluations)
    before = rec.evaluations + rec.str_evaluations
    rng = random.Random(seed * 911 + shard)
    if shard % 4 == 0:
        check_redeclaration(R, rng, tier)
    for j in range(BUDGET[tier]):
        s = (seed * 1000003 + shard) * 100000 + j
        grng = random.Random(s)
        kind = j % 3
        try:
            if kind == 0:
                module = gcore.CoreGen(grng, gcore.Cfg(max_stmts=grng.randint(3, 10))).gen_module()
            elif kind == 1:
                module = gvec.VecGen(grng).gen_module()
            else:
                module = gcalls.CallGen(grng).gen_module()
        except RecursionError:
            continue
        check_program(R, rng, module_tokens(module), "program %d" % s, tier)
        R.count("programs")
        if j == 0:
            R.sample({"layout": layout_gen.layout(module_tokens(module), rng)[:600]})
    report(R, rec)
    R.count("contract_evaluations_while_parsing", rec.evaluations + rec.str_evaluations - before)


def finalize(M, tier):
    out = []
    if M.counters.get("contract_evaluations_exhaustive", 0) == 0:
        out.append("position contracts never evaluated")
    if M.counters.get("located_nodes_checked", 0) == 0 and not M.violations:
        out.append("no located node was probed")
    if M.counters.get("redeclaration_messages_checked", 0) == 0 and not M.violations:
        out.append("no redeclaration diagnostic was observed")
    return out


def replay(case):
    from ..driver import Result
    if "sources" not in case:
        rec = contracts.PositionRecorder()
        contracts.install_positions(rec)
        text = case.get("text") or ""
        sm = nslapi.nsl.ast.SourceMapping(text)
        for off in range(len(text) + 1):
            sm.GetLineFromOffset(off)
        for b in range(len(text) + 1):
            for e in range(b, len(text) + 1):
                str(nslapi.nsl.ast.Location((b, e), sm))
        return bool(rec.findings), {"findings": rec.findings[:5]}
    text = case["sources"]["main"]
    R = Result()
    toks = text.split()
    m = c08.parse(text)
    if m is None:
        return False, {"note": "does not parse"}
    # token spans by the lexer-independent whitespace split are not available for glued layouts: re-tokenise with the generator's regex
    from ..gen import whole
    toks = [t for t in whole.tokenize(text) if not t.isspace()]
    try:
        spans = token_spans(text, toks)
    except nslapi.Harness:
        return False, {"note": "cannot re-tokenise"}
    probe_tree(R, m, text, spans, "replay", "replay", False)
    return bool(R.violations), {"violations": [v["what"] for v in R.violations.values()]}
