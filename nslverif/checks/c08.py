"""C08 — binary operators group by the declared precedence, left to right.

Deciding monitors: (a) tree-shape probe — the tree returned by the real NslParser for the
expression is serialised (through GetLeft/GetRight/GetOperation) to a fully parenthesised string
and compared with the generator's tree; (b) value probe — the compiled program is run on the real
VM on operand vectors chosen so that every alternative parenthesisation evaluates differently,
and compared with RefSem on the generator's tree; (c) layout fuzz — the same token sequence under
random whitespace/line-break layouts must give the identical tree (and value).
"""
import itertools
import random

from .. import diff, nslapi
from ..gen import layout as layout_gen
from ..lang import (INT, FLOAT, Var, IntLit, FloatLit, expr_tokens, Bin, Assign, Index, Call, Decl, ExprStmt, Block, If, Return, Func,
                    Module, arr, mk_bin, natural, BINOPS, PREC, full_paren, module_tokens, join_tokens)
from ..mon import vmobs
from ..ref import sem

PROPERTY = "C08"
TECHNIQUE = "parser tree-shape probe + differential VM value on grouping-separating operands, under layout fuzz"
LEVEL_TEXT = ("Complete enumeration of all 169 ordered pairs and 2197 ordered triples of the 13 binary operators, each without "
              "parentheses and under every parenthesisation, in five syntactic contexts for pairs, each under random layouts: "
              "the real parser's tree is compared with the generator's tree, and the compiled program's VM value with the "
              "reference interpreter on operands that separate all alternative groupings. For pairs also: literal operands at both optimisation settings, operand triples "
              "of mixed int/float type, and texts with a sign glued to a literal.")
LEVEL_NOTE = ("Trusted: the generator tree (lang.natural = the declared precedence table written out independently), the reference "
              "interpreter, the token printer. `a -1` (sign glued to a literal by the lexer) is a syntax error today; such texts are offered and "
              "judged only if accepted: they must then mean what the spaced text `a - 1` means (whitespace must not change a grouping).")
RULE = ("cases = (operator sequence, parenthesisation, context, operand kind); all 169 pairs x 2 shapes and 2197 triples x 5 shapes "
        "are enumerated in both tiers (exhaustive), each under N random layouts (3 quick / 10 thorough).  A case is non-trivial "
        "when operand vectors were found under which every alternative grouping evaluates to a different value (or leaves the "
        "domain) than the expected one; distinct = distinct (source text, vectors).")
ASSUMPTIONS = ["generator tree + RefSem are the ground truth of grouping", "operands are int (all operators) or float (no %) variables",
               "layouts never split or merge tokens"]
EXHAUSTIVE_ONLY = False
SHARD_TIMEOUT = {"quick": 900, "thorough": 5400}

OPNAME = {"ADD": "+", "SUB": "-", "MUL": "*", "DIV": "/", "MOD": "%", "CMP_GT": ">", "CMP_LT": "<", "CMP_LE": "<=",
          "CMP_GE": ">=", "CMP_NE": "!=", "CMP_EQ": "==", "LG_OR": "||", "LG_AND": "&&", "ASSIGN": "=",
          "ASSIGN_ADD_EQUAL": "+=", "ASSIGN_SUB_EQUAL": "-=", "ASSIGN_MUL_EQUAL": "*=", "ASSIGN_DIV_EQUAL": "/="}


def shards(tier):
    return 16


class ProbeError(Exception):
    pass


def shape(n):
    """fully parenthesised rendering of a real AST expression, through its public accessors"""
    k = type(n).__name__
    if k in ("BinaryExpression", "AssignmentExpression"):
        return "(%s %s %s)" % (shape(n.GetLeft()), OPNAME[n.GetOperation().name], shape(n.GetRight()))
    if k == "PrimaryExpression":
        return n.GetName()
    if k == "LiteralExpression":
        return str(n.GetValue())
    if k == "ArrayExpression":
        return "%s[%s]" % (shape(n.GetParent()), shape(n.GetExpression()))
    if k == "CallExpression":
        return "%s(%s)" % (n.GetFunction().GetName(), ", ".join(shape(a) for a in n.GetArguments()))
    raise ProbeError("unexpected node %s" % k)


_PARSER = [None]


def parse(text):
    """real parser on `text`; returns the ast.Module or None on a syntax error"""
    if _PARSER[0] is None:
        with nslapi.quiet():
            _PARSER[0] = nslapi.nsl.parser.NslParser()
    try:
        with nslapi.quiet():
            return _PARSER[0].Parse(text)
    except SystemExit:
        _PARSER[0] = None
        return None


def all_shapes(ops, operands):
    """every binary tree over the operand sequence (Catalan many)"""
    if len(operands) == 1:
        return [operands[0]]
    out = []
    for i in range(len(ops)):
        for l in all_shapes(ops[:i], operands[:i + 1]):
            for r in all_shapes(ops[i + 1:], operands[i + 1:]):
                out.append(Bin(ops[i], l, r, sem_type(ops[i], l.ty, r.ty)))
    return out


def sem_type(op, lt, rt):
    from ..lang import bin_type
    return bin_type(op, lt, rt)


def mark_parens(t):
    """return a copy of tree t in which every inner Bin is explicitly parenthesised (redundant parentheses)"""
    if isinstance(t, Bin):
        return Bin(t.op, _mp(t.l), _mp(t.r), t.ty)
    return t


def _mp(t):
    if isinstance(t, Bin):
        return Bin(t.op, _mp(t.l), _mp(t.r), t.ty, paren=True)
    return t


INT_VALUES = [1, 2, 3, 5, 7, 0, 4, 9, 12, 6, 10, 8]
FLOAT_VALUES = [1.0, 2.0, 3.0, 0.5, 7.0, 0.0, 4.0, 2.5, 12.0, 6.0, 1.5, 8.0]


def _same_at_both_precisions(a, b):
    if isinstance(a, int) and isinstance(b, int):
        return a == b
    return abs(a - b) <= 1e-6 * max(1.0, abs(a), abs(b))


def eval_tree(tree, env, f32=False):
    it = sem.Interp(Module(), f32_mode=f32)
    try:
        return ("v", it.ev(tree, dict(env)))
    except (sem.OutOfDomain, sem.RefTimeout):
        return ("ood", None)


def separating_vectors(expected, alts, names, kind, rng):
    """vectors under which `expected` is in domain; jointly every alt differs from expected on one"""
    pool = INT_VALUES if kind == "int" else FLOAT_VALUES
    vectors, open_alts = [], list(alts)
    tries = 0
    cands = []
    # deterministic small grid first, then random
    for combo in itertools.product(pool[:5], repeat=len(names)):
        cands.append(combo)
    rng.shuffle(cands)
    for combo in cands[:400]:
        tries += 1
        env = dict(zip(names, combo))
        e = eval_tree(expected, env)
        if e[0] != "v":
            continue
        hit = [a for a in open_alts if _differs(eval_tree(a, env), e)]
        if hit or not vectors:
            vectors.append(env)
            open_alts = [a for a in open_alts if a not in hit]
        if not open_alts and len(vectors) >= 2:
            break
    return vectors[:6], not open_alts


def _differs(a, e):
    if a[0] != "v":
        return True
    return not sem.values_equal(a[1], e[1])


def contexts(tree, kind):
    """(context name, Module, locator(real function body statements) -> real expression node, expected string)"""
    T = INT if kind == "int" else FLOAT
    names = sorted({n for n in _vars(tree)})
    params = [(T, n) for n in names]
    out = []
    f = Func("f", params, tree.ty, Block([Return(tree)]), True)
    out.append(("return", Module(funcs=[f]), lambda st: st[-1].GetExpression(), full_paren(tree)))
    return out


def pair_contexts(tree, kind):
    T = INT if kind == "int" else FLOAT
    names = sorted({n for n in _vars(tree)})
    params = [(T, n) for n in names]
    out = []
    x = Var("x", tree.ty)
    asg = Assign("=", x, tree)
    f = Func("f", params, tree.ty, Block([Decl(tree.ty, "x"), ExprStmt(asg), Return(x)]), True)
    out.append(("assign", Module(funcs=[f]), lambda st: st[1].GetExpression(), full_paren(asg)))
    f = Func("f", params, tree.ty, Block([Decl(tree.ty, "x", tree), Return(x)]), True)
    out.append(("init", Module(funcs=[f]),
                lambda st: st[0].GetDeclarations()[0].GetInitializerExpression(), full_paren(tree)))
    f = Func("f", params, INT, Block([If(tree, Block([Return(IntLit(1))])), Return(IntLit(0))]), True)
    out.append(("cond", Module(funcs=[f]), lambda st: st[0].GetCondition(), full_paren(tree)))
    h = Func("h", [(tree.ty, "v")], tree.ty, Block([Return(Var("v", tree.ty))]), False)
    call = Call("h", [tree], tree.ty, h)
    f = Func("f", params, tree.ty, Block([Return(call)]), True)
    out.append(("callarg", Module(funcs=[h, f]), lambda st: st[-1].GetExpression().GetArguments()[0], full_paren(tree)))
    if tree.ty == INT:
        # index: (tree) folded into [0, 8) without changing the grouping under test
        at = arr(INT, [8])
        idx = Index(Var("t", at), tree, INT)
        f = Func("f", params, INT, Block([Decl(at, "t"), Return(idx)]), True)
        out.append(("index", Module(funcs=[f]), lambda st: st[-1].GetExpression().GetExpression(), full_paren(tree)))
    # compound assignment: right-hand side extends over the whole following expression
    if tree.ty != None:
        asg2 = Assign("+=", x, tree)
        f = Func("f", params, tree.ty, Block([Decl(tree.ty, "x"), ExprStmt(asg2), Return(x)]), True)
        out.append(("compound", Module(funcs=[f]), lambda st: st[1].GetExpression(), full_paren(asg2)))
    return out


def _vars(t):
    if isinstance(t, Var):
        yield t.name
    elif isinstance(t, Bin):
        yield from _vars(t.l)
        yield from _vars(t.r)


def body_statements(m):
    fns = m.GetFunctions()
    return fns[-1].GetBody().GetStatements()


def run_case(R, obs, rng, tier, ops, kind, tree, alts, ctx_list, label, value_check=True):
    names = sorted(set(_vars(tree)))
    vectors, separated = separating_vectors(tree, alts, names, kind, rng) if value_check else ([], False)
    nlay = 3 if tier == "quick" else 10
    for cname, module, locate, expected in ctx_list:
        tokens = module_tokens(module)
        texts = [join_tokens(tokens)] + [layout_gen.layout(tokens, rng) for _ in range(nlay)]
        case = "%s:%s:%s:%s" % (label, kind, cname, " ".join(ops))
        canon_ok = False
        for li, text in enumerate(texts):
            R.evaluations += 1
            R.count("shape_probes")
            m = parse(text)
            if m is None:
                R.violation("syntax-error:%s:%s" % (label.split("/")[0], cname),
                            "%s: valid expression does not parse" % case,
                            {"sources": {"main": text}, "case": case, "expected_tree": expected})
                continue
            try:
                got = shape(locate(body_statements(m)))
            except (ProbeError, AttributeError, IndexError, KeyError) as e:
                R.inconclusive.append("shape probe cannot read the tree (%s: %s) for %s" % (type(e).__name__, e, case))
                continue
            if got != expected:
                lvl = "layout" if (li > 0 and canon_ok) else "grouping"
                key = "%s:%s:%s" % (lvl, label.split("/")[0], _mech(ops, expected, got))
                R.violation(key, "%s: parsed as %s, declared grouping is %s" % (case, got, expected),
                            {"sources": {"main": text}, "case": case, "expected_tree": expected, "observed_tree": got,
                             "layout_index": li})
            elif li == 0:
                canon_ok = True
        if not value_check or not vectors:
            continue
        T = INT if kind == "int" else FLOAT
        inputs = [({n: env[n] for n in names}, {}) for env in vectors]
        # value: canonical text and one random layout
        for text in (texts[0], texts[-1]):
            res = diff.check_program(R, obs, case, module, "f", inputs, "value:%s:%s" % (label.split("/")[0], cname), source=text)
            if res["runnable"] and separated and res["bad"] == 0:
                R.nontriv(text, repr(inputs))
        if cname == "return":
            wasm_value_probe(R, case, module, tree, texts[0], names, vectors, kind)
        if separated:
            R.count("separated_cases")
        else:
            R.count("not_separated_cases")


def wasm_value_probe(R, case, module, tree, text, names, vectors, kind):
    """the same expression through the WebAssembly backend (where it translates it at all): the emitted code must evaluate the
    declared grouping too — operand order on the wasm stack is where a backend can regroup or swap"""
    from .. import wasmrun
    for opt in (False, True):
        e = wasmrun.emit(text, opt)
        if e.data is None or e.refused or e.decode_error or e.validation_error:
            R.count("wasm_probe_refused_or_invalid(C06/C07 territory)")
            continue
        R.count("wasm_probe_modules")
        for env in vectors:
            exp = eval_tree(tree, env)
            if exp[0] != "v":
                continue
            if kind != "int":
                # WebAssembly computes in single precision: a case is judged only when the source evaluated at single and at
                # double precision gives the same answer (comparisons of rounded quotients flip otherwise)
                exp32 = eval_tree(tree, env, f32=True)
                if exp32[0] != "v" or not _same_at_both_precisions(exp[1], exp32[1]):
                    R.count("wasm_probe_precision_sensitive_skipped")
                    continue
            st, got = wasmrun.run_export(e, "f", [env[n] for n in names])
            R.evaluations += 1
            R.count("wasm_probe_runs")
            if st == "trap":
                continue        # (division by zero traps; C06 judges traps)
            want = exp[1]
            if kind == "int" or isinstance(want, int):
                ok = st == "ok" and isinstance(got, (int, float)) and (int(got) & 0xFFFFFFFF) == (int(want) & 0xFFFFFFFF)
            else:
                ok = st == "ok" and got is not None and abs(got - want) <= 1e-5 * max(1.0, abs(want))
            if not ok:
                R.violation("wasm-value:%s" % _mech(case.split(":")[-1].split(" "), None, None),
                            "%s (%s): the emitted WebAssembly returns %r for %s, the declared grouping gives %r" % (case, "O1" if opt else "O0", (st, got), env, want),
                            {"sources": {"main": text}, "case": case, "optimize": opt, "mode": "wasm", "inputs": {"args": env}, "expected": want, "names": names})
                return
    R.nontriv("wasm", text)


def literal_cases(R, obs, rng, ops, kind):
    """the same grouping question with literal operands (`a op1 K1 op2 K2`, `K0 op1 a op2 K2`), compiled with and without
    optimisation: a constant folder or re-associating peephole must not regroup"""
    T = INT if kind == "int" else FLOAT
    a = Var("a", T)
    lit = (lambda v: IntLit(v)) if kind == "int" else (lambda v: __import__("nslverif.lang", fromlist=["FloatLit"]).FloatLit(float(v)))
    for ks, layout_ in (((3, 2), "aKK"), ((7, 5), "aKK"), ((5, 3), "KaK"), ((2, 7), "KKa")):
        if layout_ == "aKK":
            operands = [a, lit(ks[0]), lit(ks[1])]
        elif layout_ == "KaK":
            operands = [lit(ks[0]), a, lit(ks[1])]
        else:
            operands = [lit(ks[0]), lit(ks[1]), a]
        try:
            tree = natural(list(ops), operands)
        except ValueError:
            continue
        f = Func("f", [(T, "a")], tree.ty, Block([Return(tree)]), True)
        m = Module(funcs=[f])
        inputs = [({"a": v}, {}) for v in ((10, 1, 4, 0, 9) if kind == "int" else (10.0, 1.5, 4.0, 0.0, 9.25))]
        case = "literal:%s:%s:%s" % (kind, layout_, " ".join(ops))
        for opt in (False, True):
            res = diff.check_program(R, obs, case, m, "f", inputs, "value:literal:%s:%s" % (layout_, "O1" if opt else "O0"), optimize=opt)
            if res["runnable"] and res["bad"] == 0:
                R.nontriv(res["source"], opt)
        R.count("literal_operand_cases")


MIXED_VALUES = {"int": (7, 2, -3, 5), "float": (2.5, -1.5, 7.25, 0.5)}


def mixed_type_cases(R, obs, rng, ops):
    """`a op1 b op2 c` with int and float operands mixed: the conversions the operators insert must follow the declared
    grouping too (an inner int-only group stays an int operation inside a float expression), at both optimisation settings"""
    for kinds in itertools.product(("int", "float"), repeat=3):
        if len(set(kinds)) == 1:
            continue
        operands = [Var(nm, INT if k == "int" else FLOAT) for nm, k in zip("abc", kinds)]
        try:
            tree = natural(list(ops), operands)
        except ValueError:
            continue    # (% with a float operand: not defined)
        f = Func("f", [(v.ty, v.name) for v in operands], tree.ty, Block([Return(tree)]), True)
        m = Module(funcs=[f])
        inputs = []
        for sh in range(4):
            env = {v.name: MIXED_VALUES[k][(sh + j) % 4] for j, (v, k) in enumerate(zip(operands, kinds))}
            inputs.append((env, {}))
        case = "mixed:%s:%s" % ("".join(k[0] for k in kinds), " ".join(ops))
        for opt in (False, True):
            res = diff.check_program(R, obs, case, m, "f", inputs, "value:mixed-types:%s" % ("O1" if opt else "O0"), optimize=opt)
            if res["runnable"] and res["bad"] == 0:
                R.nontriv(res["source"], opt)
        R.count("mixed_type_cases")


def glued_sign_cases(R, obs, rng, ops, kind):
    """`a op1 b -1` / `a -1 op2 c`: the lexer reads a sign directly in front of a digit as part of the literal, so today
    these texts are syntax errors.  Whitespace must not change a grouping: *if* such a text is accepted, it has to mean what
    the spaced text `a op1 b - 1` means."""
    T = INT if kind == "int" else FLOAT
    a, b = Var("a", T), Var("b", T)
    one = "1" if kind == "int" else "1.0"
    lit = IntLit(1) if kind == "int" else FloatLit(1.0)
    inputs = [({"a": x, "b": y}, {}) for x, y in (((0, 2), (3, 1), (5, 5), (-2, 7)) if kind == "int" else ((0.5, 2.0), (3.0, 1.5), (5.0, 5.0), (-2.0, 7.5)))]
    forms = []
    for sign in ("-", "+"):
        for op in set(ops):
            try:
                forms.append((natural([op, sign], [a, b, lit]), "a %s b %s%s" % (op, sign, one)))
                forms.append((natural([sign, op], [a, lit, b]), "a %s%s %s b" % (sign, one, op)))
                forms.append((natural([op, sign], [a, b, lit]), "a %s b%s%s" % (op, sign, one)))
            except ValueError:
                continue
    for tree, text in forms:
        f = Func("f", [(T, "a"), (T, "b")], tree.ty, Block([Return(tree)]), True)
        m = Module(funcs=[f])
        spaced = join_tokens(module_tokens(m))
        toks = []
        expr_tokens(tree, toks)
        spaced_expr = join_tokens(toks).strip()
        if spaced_expr not in spaced:
            R.count("glued_sign_harness_skip")
            continue
        src = spaced.replace(spaced_expr, text)
        R.count("glued_sign_texts")
        res = diff.check_program(R, obs, "glued:%s:%s" % (kind, text), m, "f", inputs, "value:glued-sign", require_accept=False, source=src)
        if not res["accepted"]:
            R.count("glued_sign_rejected")
        elif res["runnable"] and res["bad"] == 0:
            R.count("glued_sign_accepted_and_agreeing")
            R.nontriv(src)


def _mech(ops, expected, got):
    """mechanism key: the precedence levels of the operators involved and which way it went"""
    lv = "-".join(str(PREC[o]) for o in ops)
    return "levels=%s" % lv


def enumerate_cases(tier):
    """(ops, kind) for all pairs and triples"""
    out = []
    for n in (2, 3):
        for ops in itertools.product(BINOPS, repeat=n):
            out.append((ops, "int"))
            if "%" not in ops:
                out.append((ops, "float"))
    return out


def run_shard(tier, seed, shard, n, R):
    obs = vmobs.Observer(frames=False, defuse=True, index=True)
    cases = enumerate_cases(tier)
    R.flags["all_pairs_and_triples"] = True
    for i, (ops, kind) in enumerate(cases):
        if i % n != shard:
            continue
        rng = random.Random(seed * 7919 + i)
        T = INT if kind == "int" else FLOAT
        operands = [Var(nm, T) for nm in "abcd"[:len(ops) + 1]]
        try:
            nat = natural(list(ops), operands)
        except ValueError:
            continue
        shapes = all_shapes(list(ops), operands)
        nat_s = full_paren(nat)
        R.count("op_sequences_%d" % len(ops))
        # 1. no parentheses: must parse as the natural tree
        alts = [s for s in shapes if full_paren(s) != nat_s]
        ctxs = contexts(nat, kind) + (pair_contexts(nat, kind) if len(ops) == 2 else [])
        run_case(R, obs, rng, tier, ops, kind, nat, alts, ctxs, "plain/%d" % len(ops))
        if len(ops) == 2:
            literal_cases(R, obs, rng, ops, kind)
            if kind == "int":
                mixed_type_cases(R, obs, rng, ops)
            glued_sign_cases(R, obs, rng, ops, kind)
        # 2. every parenthesisation: minimal parentheses force the shape
        for s in shapes:
            s_s = full_paren(s)
            if s_s == nat_s:
                # redundant parentheses around every sub-expression
                run_case(R, obs, rng, tier, ops, kind, mark_parens(s), alts, contexts(mark_parens(s), kind), "redundant/%d" % len(ops),
                         value_check=(len(ops) == 2))
                continue
            others = [t for t in shapes if full_paren(t) != s_s]
            run_case(R, obs, rng, tier, ops, kind, s, others, contexts(s, kind), "paren/%d" % len(ops),
                     value_check=(len(ops) == 2 or (i // n) % 4 == 0 or tier == "thorough"))
        if i % 211 == shard:
            R.sample({"ops": ops, "kind": kind, "text": join_tokens(module_tokens(contexts(nat, kind)[0][1])), "expected_tree": nat_s})


def finalize(M, tier):
    out = []
    if M.counters.get("shape_probes", 0) == 0:
        out.append("the shape probe never ran")
    if M.counters.get("vm_runs", 0) == 0:
        out.append("no VM value was compared")
    if M.counters.get("op_sequences_2", 0) < 169 or M.counters.get("op_sequences_3", 0) < 2197:
        out.append("enumeration incomplete: %s pairs, %s triples" % (M.counters.get("op_sequences_2"), M.counters.get("op_sequences_3")))
    return out


def replay(case):
    text = case["sources"]["main"]
    if case.get("mode") == "wasm":
        from .. import wasmrun
        e = wasmrun.emit(text, bool(case.get("optimize")))
        if e.data is None or e.refused or e.decode_error or e.validation_error:
            return False, {"refused": True}
        st, got = wasmrun.run_export(e, "f", [case["inputs"]["args"][n] for n in case["names"]])
        want = case["expected"]
        if isinstance(want, int):
            ok = st == "ok" and (int(got) & 0xFFFFFFFF) == (want & 0xFFFFFFFF)
        else:
            ok = st == "ok" and abs(got - want) <= 1e-5 * max(1.0, abs(want))
        return (not ok and st != "trap"), {"status": st, "value": got, "expected": want}
    if "expected_tree" in case and "function" not in case:
        m = parse(text)
        if m is None:
            return True, {"parse": "syntax error"}
        trees = []
        # search the last function body for an expression whose shape equals / differs
        def walk(node, acc):
            try:
                acc.append(shape(node))
            except Exception:
                pass
            for attr in ("GetExpression", "GetCondition", "GetInitializerExpression"):
                if hasattr(node, attr):
                    try:
                        c = getattr(node, attr)()
                        if c is not None:
                            walk(c, acc)
                    except Exception:
                        pass
            if hasattr(node, "GetDeclarations"):
                for d in node.GetDeclarations():
                    walk(d, acc)
            if hasattr(node, "GetArguments") and type(node).__name__ == "CallExpression":
                for a in node.GetArguments():
                    walk(a, acc)
        for st in body_statements(m):
            walk(st, trees)
        ok = case["expected_tree"] in trees
        return (not ok), {"expected_tree": case["expected_tree"], "trees_found": trees[:10]}
    return diff.replay_program(case)
