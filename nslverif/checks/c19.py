"""C19 — wasm writer: integers, names and section sizes decode to what was written.

Deciding monitors: (a) a contract on the real `WebAssembly.PackInteger` (ULEB128 for non-negative
values, SLEB128 or refusal for negative ones) evaluated on every boundary value and on every call the
writer makes while emitting modules; (b) byte-level re-decoding of modules written by the real writer —
driven directly through its API with hostile sizes (hundreds and tens of thousands of locals, long and
multi-byte names, many functions, large bodies) and through the compiler with constants at every 7-bit
and sign boundary — with an independent strict decoder: every section/body size field must equal the
payload that follows, counts and indices must read back as written, i32.const immediates must read back
(signed) as the constants of the program, names as the strings given.
"""
import io
import random

from .. import nslapi, wasmrun
from ..gen import wasmsub
from ..lang import INT, IntLit, Var, Bin, Block, Return, Func, Module, print_module
from ..mon import contracts
from ..ref import leb, wasm_decode

PROPERTY = "C19"
TECHNIQUE = "contract on the real PackInteger + independent byte-level re-decoding (standard ULEB/SLEB decoders, strict section/body size accounting) of modules written by the real writer"
LEVEL_TEXT = ("Exhaustive over the boundary set {2^(7k-1), 2^(7k)} +- {0,1} for k = 1..5, both signs, plus 0, +-1, 2^31-1, -2^31, 2^32-1 "
              "and 10^4-10^5 random values, at the PackInteger interface (contract) and *in place*: as i32.const immediates of "
              "compiled programs `return a + K`, as local counts (1..70 000) and numbers of local declarations (1..300, compared type by type), function counts (1..300), export-name lengths "
              "(1..20 000 bytes, incl. multi-byte UTF-8), body sizes and section sizes of modules built through the writer's API; "
              "each written module is decoded by the independent decoder and compared field by field with what was requested.")
LEVEL_NOTE = ("Trusted: the textbook LEB128 decoders in nslverif/ref/leb.py and the strict reference decoder. Padding (redundant "
              "continuation bytes) is legal in WebAssembly, so minimal length is not demanded, only <= 5 bytes for 32-bit values. "
              "A writer that refuses negative values in the unsigned packer is accepted (a separate signed packer may exist).")
RULE = ("case = one integer / name / module written; non-trivial when the value needs >= 2 LEB bytes or is negative, or the module has "
        "a multi-byte size field; distinct by value / bytes.")
ASSUMPTIONS = ["i32.const immediates are the only signed integers the writer emits"]
SHARD_TIMEOUT = {"quick": 900, "thorough": 3600}


def shards(tier):
    return 16


def boundary_values():
    vs = {0, 1, 2 ** 31 - 1, 2 ** 31, 2 ** 32 - 1, 2 ** 32 - 2}
    for k in range(1, 6):
        for base in (1 << (7 * k - 1), 1 << (7 * k)):
            for d in (-1, 0, 1):
                if base + d < 2 ** 32:
                    vs.add(base + d)
    return sorted(vs)


def signed_boundary_values():
    vs = set()
    for v in boundary_values():
        if v <= 2 ** 31 - 1:
            vs.add(v)
        if -v >= -(2 ** 31):
            vs.add(-v)
    vs.add(-(2 ** 31))
    return sorted(vs)


def report_pack(R, rec, where):
    for f in rec.findings:
        R.violation("packinteger:%s" % f["kind"], "%s: PackInteger(%s): %s" % (where, f["value"], f["detail"]),
                    {"mode": "pack", "value": f["value"], "detail": f["detail"]})
    rec.findings = []


def direct_sweep(R, rng, rec, nrand):
    W = nslapi.nsl.WebAssembly
    for v in boundary_values():
        R.evaluations += 1
        try:
            W.PackInteger(v)
        except Exception:
            pass
        if v >= 128:
            R.nontriv("u", v)
    # signed values: through the writer's signed packer when it has one (judged here with the textbook SLEB
    # decoder); a writer with a single packer is asked directly (the contract then judges negative arguments)
    signed = getattr(W, "PackSignedInteger", None)
    for v in signed_boundary_values() + [rng.randint(-2 ** 31, 2 ** 31 - 1) for _ in range(nrand // 4)]:
        R.evaluations += 1
        if signed is None:
            if v < 0:
                try:
                    W.PackInteger(v)
                except Exception:
                    pass
                R.nontriv("s", v)
            continue
        try:
            b = bytes(signed(v))
            d, used = leb.sleb(b)
            if d != v or used != len(b) or len(b) > 5:
                R.violation("signed-packer-not-sleb", "PackSignedInteger(%d) = %s decodes (signed) to %d using %d of %d bytes" % (v, b.hex(), d, used, len(b)),
                            {"mode": "signed", "value": v})
            else:
                R.count("signed_packer_values_checked")
                if v < 0 or v >= 64:
                    R.nontriv("s", v)
        except Exception as e:
            R.violation("signed-packer-raises:%s" % type(e).__name__, "PackSignedInteger(%d) raised %s" % (v, e), {"mode": "signed", "value": v})
    for _ in range(nrand):
        v = rng.getrandbits(rng.choice([7, 8, 14, 15, 21, 22, 28, 29, 32]))
        R.evaluations += 1
        try:
            W.PackInteger(v)
        except Exception:
            pass
    # names
    for name in ["f", "x" * 127, "y" * 128, "z" * 129, "ü", "é" * 64, "漢字", "aé中\U0001F600b", "n" * 16384, "é" * 8192]:
        buf = io.BytesIO()
        R.evaluations += 1
        try:
            W.WriteString(buf, name)
        except Exception as e:
            R.violation("writestring-raises:%s" % type(e).__name__, "WriteString(%r...) raised %s" % (name[:10], e), {"mode": "string", "name": name[:50]})
            continue
        b = buf.getvalue()
        try:
            n, used = leb.uleb(b)
        except leb.LebError as e:
            R.violation("name-length-not-uleb", "length prefix of %r... is not ULEB128: %s" % (name[:10], e), {"mode": "string", "name": name[:50]})
            continue
        enc = name.encode("utf-8")
        if n != len(enc) or b[used:] != enc:
            R.violation("name-not-length-prefixed-utf8", "WriteString(%r...): prefix says %d, %d bytes follow, UTF-8 length is %d"
                        % (name[:10], n, len(b) - used, len(enc)), {"mode": "string", "name": name[:50]})
        else:
            R.count("names_checked")
            if len(enc) >= 128 or len(enc) != len(name):
                R.nontriv("name", name[:40], len(enc))


def build_and_check(R, nfuncs, nparams, local_counts, consts, names, label):
    """drive the writer's API directly; decode; compare with what was requested"""
    W = nslapi.nsl.WebAssembly
    m = W.Module()
    t = m.AddFunctionType(W.FunctionType([W.ValueType.i32] * nparams, [W.ValueType.i32]))
    for i in range(nfuncs):
        idx = m.AddFunction(t)
        m.AddExport(W.Export(idx, names[i]))
        code = W.Code()
        for vt, cnt in local_counts:
            code.AddLocal(W.Local(W.ValueType.i32 if vt == "i32" else W.ValueType.f32, cnt))
        for c in consts:
            code.AddInstruction(W.Instruction(W.opcodes["i32.const"], (c,)))
            code.AddInstruction(W.Instruction(W.opcodes["local.set"], (nparams,)))
        code.AddInstruction(W.Instruction(W.opcodes["i32.const"], (consts[i % len(consts)] if consts else 0,)))
        code.AddInstruction(W.Instruction(W.opcodes["return"]))
        m.AddCode(code)
    buf = io.BytesIO()
    R.evaluations += 1
    rep = {"mode": "api", "label": label, "nfuncs": nfuncs, "nparams": nparams, "local_counts": local_counts, "consts": consts[:20],
           "names": [n[:30] for n in names[:5]]}
    try:
        m.WriteTo(buf)
    except Exception as e:
        R.violation("writer-raises:%s" % type(e).__name__, "%s: WriteTo raised %s: %s" % (label, type(e).__name__, e), rep)
        return
    data = buf.getvalue()
    R.count("api_modules_written")
    R.count("api_bytes_written", len(data))
    try:
        d = wasm_decode.decode(data)
    except wasm_decode.DecodeError as e:
        R.violation("written-module-does-not-decode:%s" % e.rule, "%s: %s (%s) at offset %s" % (label, e.rule, e.detail, e.offset), dict(rep, bytes_hex=data.hex()[:600]))
        return
    # field by field
    total_locals = sum(c for _, c in local_counts)
    problems = []
    if len(d.codes) != nfuncs or len(d.funcs) != nfuncs:
        problems.append("function count: wrote %d, decoded %d bodies / %d declarations" % (nfuncs, len(d.codes), len(d.funcs)))
    else:
        for i, (locals_, body) in enumerate(d.codes):
            if len(locals_) != total_locals:
                problems.append("function %d: wrote %d locals, decoded %d" % (i, total_locals, len(locals_)))
                break
            want_types = [vt for vt, cnt in local_counts for _ in range(cnt)]
            if list(locals_) != want_types:
                k = [j for j, (a, b) in enumerate(zip(locals_, want_types)) if a != b][0]
                problems.append("function %d: local %d declared %s, read back as %s" % (i, k, want_types[k], locals_[k]))
                break
            got = [imm[0] for opc, imm in body if opc == 0x41]
            want = list(consts) + [consts[i % len(consts)] if consts else 0]
            if got != want:
                bad = [(w, g) for w, g in zip(want, got) if w != g][:3]
                problems.append("function %d: i32.const immediates read back differently (written, read): %s" % (i, bad))
                break
    exp = [(n, k, i) for n, k, i in d.exports]
    if [e[0] for e in exp] != list(names[:nfuncs]):
        problems.append("export names read back differently")
    if [e[2] for e in exp] != list(range(nfuncs)):
        problems.append("export indices read back differently")
    for sec in d.sections:
        if sec["size_field_value"] != sec["payload_len"]:
            problems.append("section %d: size field %d, payload %d" % (sec["id"], sec["size_field_value"], sec["payload_len"]))
    for sp in d.body_spans:
        if sp["size_field_value"] != sp["payload_len"]:
            problems.append("body size field %d, payload %d" % (sp["size_field_value"], sp["payload_len"]))
    if problems:
        R.violation("written-module-reads-back-differently:%s" % problems[0].split(":")[0].split(" ")[0], "%s: %s" % (label, "; ".join(problems[:3])),
                    dict(rep, bytes_hex=data.hex()[:600]))
        return
    R.count("api_modules_read_back")
    multi = any(sec["size_field_value"] >= 128 for sec in d.sections)
    if multi:
        R.nontriv("api", label, len(data))
    R.maximum("largest_section_size_field", max(sec["size_field_value"] for sec in d.sections))
    R.maximum("largest_local_count", total_locals)


def many_types(R, ntypes, label):
    """a module with `ntypes` different function types, function i using type i: type indices >= 128 are written in place"""
    W = nslapi.nsl.WebAssembly
    m = W.Module()
    for i in range(ntypes):
        t = m.AddFunctionType(W.FunctionType([W.ValueType.i32] * (i % 9) + [W.ValueType.f32] * (i // 9 % 5), [W.ValueType.i32]))
        idx = m.AddFunction(t)
        m.AddExport(W.Export(idx, "t%d" % i))
        code = W.Code()
        code.AddInstruction(W.Instruction(W.opcodes["i32.const"], (i,)))
        code.AddInstruction(W.Instruction(W.opcodes["return"]))
        m.AddCode(code)
    buf = io.BytesIO()
    R.evaluations += 1
    rep = {"mode": "types", "ntypes": ntypes}
    try:
        m.WriteTo(buf)
    except Exception as e:
        R.violation("writer-raises:%s" % type(e).__name__, "%s: WriteTo raised %s: %s" % (label, type(e).__name__, e), rep)
        return
    data = buf.getvalue()
    try:
        d = wasm_decode.decode(data)
    except wasm_decode.DecodeError as e:
        R.violation("written-module-does-not-decode:%s" % e.rule, "%s: %s (%s) at offset %s" % (label, e.rule, e.detail, e.offset), dict(rep, bytes_hex=data.hex()[:400]))
        return
    if list(d.funcs) != list(range(ntypes)):
        bad = [(i, g) for i, g in enumerate(d.funcs) if i != g][:3]
        R.violation("written-module-reads-back-differently:type-index", "%s: type indices of the function section read back differently (written, read): %s" % (label, bad), rep)
        return
    if [e[2] for e in d.exports] != list(range(ntypes)):
        R.violation("written-module-reads-back-differently:export-index", "%s: export indices read back differently" % label, rep)
        return
    R.count("api_modules_read_back")
    R.nontriv("types", ntypes)


def emitted_many_functions(R, nfuncs, label):
    """through the compiler: more than 127 functions in one module (function, type and export indices >= 128)"""
    a = Var("a", INT)
    funcs = [Func("q%d" % i, [(INT, "a")], INT, Block([Return(Bin("+", a, IntLit(i), INT))]), True) for i in range(nfuncs)]
    src = print_module(Module(funcs=funcs))
    e = wasmrun.emit(src, False)
    R.evaluations += 1
    rep = {"mode": "emitted-many", "nfuncs": nfuncs}
    if not e.out.accepted or e.refused:
        R.count("many_functions_refused")
        return
    if e.decode_error or e.validation_error:
        why = e.decode_error[:2] if e.decode_error else e.validation_error
        R.violation("emitted-module-with-many-functions-invalid:%s" % why[0], "%s: %s" % (label, why), rep)
        return
    if list(e.module.funcs) != list(range(nfuncs)) and len(set(e.module.funcs)) != 1:
        R.violation("emitted-type-indices-read-back-differently", "%s: function section reads %s..." % (label, list(e.module.funcs)[:5]), rep)
        return
    for i in sorted({0, 127, 128, min(129, nfuncs - 1), nfuncs - 1}):
        st, v = wasmrun.run_export(e, "q%d" % i, [1000])
        if st != "ok" or v != 1000 + i:
            R.violation("emitted-export-index-wrong", "%s: export q%d returns %r" % (label, i, (st, v)), rep)
            return
    R.count("emitted_many_functions_ok")
    R.nontriv("many", nfuncs)


def emitted_constants(R, rec, values, label):
    """programs `return a + K` / `return K`: the immediates must read back as K (signed)"""
    a = Var("a", INT)
    funcs = []
    for i, K in enumerate(values):
        funcs.append(Func("k%d" % i, [(INT, "a")], INT, Block([Return(Bin("+", a, IntLit(K), INT))]), True))
    for off in range(0, len(funcs), 30):
        chunk = funcs[off:off + 30]
        ks = values[off:off + 30]
        src = print_module(Module(funcs=chunk))
        e = wasmrun.emit(src, False)
        R.evaluations += 1
        rep = {"mode": "emitted", "sources": {"main": src}, "constants": ks}
        if not e.out.accepted or e.refused:
            R.violation("constant-program-not-emitted", "%s: `return a + K` is %s" % (label, "rejected" if not e.out.accepted else "refused: %s" % e.refusal), rep)
            continue
        if e.decode_error:
            R.violation("emitted-module-does-not-decode:%s" % e.decode_error[0], "%s: %s" % (label, e.decode_error), rep)
            continue
        R.count("emitted_modules_decoded")
        for (locals_, body), K, f in zip(e.module.codes, ks, chunk):
            got = [imm[0] for opc, imm in body if opc == 0x41]
            R.count("emitted_constants_checked")
            if got != [K]:
                R.violation("i32.const-reads-back-differently:%s" % ("negative" if K < 0 else "positive"),
                            "%s: constant %d of the program reads back (signed LEB128) as %s" % (label, K, got), dict(rep, constant=K, read_back=got))
                break
            st, v = wasmrun.run_export(e, f.name, [5])
            want = ((5 + K + 2 ** 31) % 2 ** 32) - 2 ** 31
            if e.validation_error is None and (st != "ok" or v != want):
                R.violation("i32.const-evaluates-differently", "%s: 5 + %d evaluates to %r in the reference engine" % (label, K, (st, v)), dict(rep, constant=K))
                break
            R.nontriv("emitted-const", K)
        for sec in e.module.sections:
            if sec["size_field_value"] != sec["payload_len"]:
                R.violation("section-size-field-wrong", "%s: section %d" % (label, sec["id"]), rep)


def run_shard(tier, seed, shard, n, R):
    rec = contracts.PackRecorder()
    contracts.install_pack(rec)
    rng = random.Random(seed * 271 + shard)
    direct_sweep(R, rng, rec, 700 if tier == "quick" else 7000)
    report_pack(R, rec, "direct")
    R.flags["all_boundary_values_at_the_interface"] = True
    before = rec.evaluations
    # emitted constants: every signed boundary value, split over the shards
    sv = signed_boundary_values()
    mine = [v for i, v in enumerate(sv) if i % n == shard]
    emitted_constants(R, rec, mine, "boundary constants")
    R.flags["all_signed_boundary_values_as_i32.const"] = True
    emitted_constants(R, rec, [rng.randint(-2 ** 31, 2 ** 31 - 1) for _ in range(60 if tier == "quick" else 900)], "random constants")
    # writer API with hostile sizes
    shapes = [
        (1, 0, [("i32", 1)], [0], ["f"]),
        (1, 1, [("i32", 127)], [63, 64, -64, -65], ["g"]),
        (1, 2, [("i32", 128)], [127, 128, -128, -129], ["h" * 127]),
        (2, 0, [("i32", 100), ("f32", 28), ("i32", 1)], [8191, 8192, -8192, -8193], ["a" * 128, "b" * 129]),
        (3, 3, [("i32", 16383)], [1048575, 1048576, -1048576, -1048577], ["ü", "é" * 70, "漢字"]),
        (1, 0, [("i32", 16384)], [134217727, 134217728, -134217728, -134217729], ["n" * 16383]),
        (1, 0, [("f32", 40000), ("i32", 30000)], [2147483647, -2147483648, -1, 1], ["m" * 16384]),
        (130, 1, [("i32", 2)], [1, 2, 3], ["e%d" % i for i in range(130)]),
        (300, 0, [], [300, -300], ["é%d" % i for i in range(300)]),
        (1, 0, [("i32", 1)], list(range(-70, 70)) * 40, ["big"]),
        # many declarations of locals in one body (their *number* is a count of its own): alternating types cannot be merged
        (1, 1, [("i32", 1), ("f32", 1)] * 63 + [("i32", 1)], [5], ["l127"]),
        (1, 1, [("i32", 1), ("f32", 1)] * 64, [5], ["l128"]),
        (2, 0, [("f32", 2), ("i32", 1)] * 70, [7, -7], ["l140a", "l140b"]),
        (1, 0, [("i32", 1), ("f32", 3)] * 150, [9], ["l300"]),
        (1, 0, [("i32", 1)] * 130 + [("f32", 1)] * 130, [9], ["runs"]),
        # the same export name given twice (not a valid module, but the writer's counts and sizes must still describe what
        # it wrote: every entry it was given, or a count that matches)
        (2, 0, [], [1], ["same", "same"]),
        (4, 1, [("i32", 1)], [1, 2], ["p", "q", "p", "p"]),
    ]
    for i, (nf, np_, lc, cs, names) in enumerate(shapes):
        if i % n == shard:
            build_and_check(R, nf, np_, lc, cs, names, "shape %d" % i)
    if shard % 4 == 0:
        many_types(R, [128, 129, 200, 300][shard // 4 % 4], "many types")
    if shard % 4 == 1:
        emitted_many_functions(R, [129, 140, 200, 260][shard // 4 % 4], "many functions")
    for _ in range(6 if tier == "quick" else 80):
        nf = rng.choice([1, 1, 2, 5, 127, 128, 129])
        lc = [(rng.choice(["i32", "f32"]), rng.choice([1, 2, 127, 128, 129, 1000, 16383, 16384])) for _ in range(rng.randint(0, 4))]
        if rng.random() < 0.3:
            lc = [(rng.choice(["i32", "f32"]), rng.choice([1, 1, 2, 3])) for _ in range(rng.choice([126, 127, 128, 129, 200, 260]))]
        cs = [rng.choice(signed_boundary_values()) for _ in range(rng.randint(1, 12))]
        names = ["".join(rng.choice("abé中z_") for _ in range(rng.choice([1, 5, 127, 128, 300]))) + str(i) for i in range(nf)]
        build_and_check(R, nf, rng.randint(0, 3), lc, cs, names, "random shape")
    report_pack(R, rec, "while writing modules")
    R.count("contract_evaluations_direct", before)
    R.count("contract_evaluations_while_writing", rec.evaluations - before)
    R.count("contract_negative_arguments", rec.negative)
    if shard == 0:
        R.sample({"boundary_values": boundary_values()[:40], "example_program": "export function k0 (int a) -> int {\n  return a + -8193;\n}\n"})


def finalize(M, tier):
    out = []
    if M.counters.get("contract_evaluations_direct", 0) == 0:
        out.append("PackInteger contract never evaluated")
    if M.counters.get("contract_evaluations_while_writing", 0) == 0:
        out.append("PackInteger contract not reached from the writer (rebinding ineffective?)")
    if M.counters.get("emitted_constants_checked", 0) == 0 and not M.violations:
        out.append("no emitted constant was read back")
    return out


def replay(case):
    from ..driver import Result
    R = Result()
    rec = contracts.PackRecorder()
    contracts.install_pack(rec)
    if case.get("mode") == "pack":
        try:
            nslapi.nsl.WebAssembly.PackInteger(case["value"])
        except Exception:
            pass
        return bool(rec.findings), {"findings": rec.findings}
    if case.get("mode") == "emitted":
        emitted_constants(R, rec, case["constants"], "replay")
        return bool(R.violations), {"violations": [v["what"] for v in R.violations.values()]}
    if case.get("mode") == "api":
        names = case["names"] + ["n%d" % i for i in range(case["nfuncs"])]
        build_and_check(R, case["nfuncs"], case["nparams"], [tuple(x) for x in case["local_counts"]], case["consts"] or [0], names, "replay")
        return bool(R.violations), {"violations": [v["what"] for v in R.violations.values()]}
    return False, {}
