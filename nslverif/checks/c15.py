"""C15 — global state persists exactly across invocation histories; VMs are isolated.

Deciding monitor: offline/online history checker.  A history of host operations (SetGlobal, Invoke,
GetGlobal) over 1-3 VMs created from one linked program is executed on the real VMs and, operation by
operation, on a reference state machine (RefSem with one global store per VM); every Invoke result and
every GetGlobal must equal the model.  Additional monitors: globals change only at store instructions
(VM hook), the program listing is unchanged by execution, mutable containers reachable from different
VMs' globals are disjoint, values handed to the host are not aliased with VM state.
"""
import random

from .. import diff, nslapi
from ..gen import state as gstate, core as gcore
from ..lang import print_module
from ..mon import vmobs
from ..ref import sem

PROPERTY = "C15"
TECHNIQUE = "history checker: recorded host-operation histories on real VMs vs a reference state machine, plus globals-change-only-at-stores and program-read-only monitors"
LEVEL_TEXT = ("Seeded random programs with globals of scalar, vector, matrix, 1-D/2-D array, struct and array-of-vector type and 5-23 "
              "exported functions (read-modify-write of every global kind; functions whose result depends on default-initialised "
              "locals), linked once; 1-3 VMs per program; many short histories of 10-60 host operations each, checked step by step "
              "against the reference state machine; both optimisation settings.")
LEVEL_NOTE = ("Trusted: RefSem as the state machine (fresh locals per invocation, globals persist), value comparison (floats 1e-9). "
              "Values are passed to the VM as fresh copies, and results are compared by value, so host-side aliasing cannot "
              "confound the verdict; aliasing between VM state and returned/passed host objects is recorded separately.")
RULE = ("case = (program, history); non-trivial when the history has >= 2 invocations touching one global, or >= 2 VMs interleaved; "
        "distinct by (source, history).")
ASSUMPTIONS = ["every global is set by the host before the first invocation (the VM initialises globals to None)"]
SHARD_TIMEOUT = {"quick": 900, "thorough": 5400}
BUDGET = {"quick": 50, "thorough": 2000}   # programs per shard; 2 histories each


def shards(tier):
    return 16


def container_ids(v, acc):
    if isinstance(v, (list, dict)):
        acc.add(id(v))
        for x in (v.values() if isinstance(v, dict) else v):
            container_ids(x, acc)
    return acc


def run_history(R, obs, comp, module, src, hist, nvms, opt, label):
    vms = [nslapi.make_vm(comp.program) for _ in range(nvms)]
    models = [sem.Interp(module) for _ in range(nvms)]
    gnames = [n for _, n in module.globals]
    before = nslapi.listing(comp.out.ir)
    ninv = 0
    for step, (v, op, name, payload) in enumerate(hist):
        R.evaluations += 1
        vm, model = vms[v], models[v]
        ctx = {"sources": {"main": src}, "optimize": opt, "history": hist[:step + 1], "vms": nvms, "step": step}
        if op == "set":
            vm.SetGlobal(name, sem.deep_copy(payload))
            model.globals[name] = sem.deep_copy(payload)
            continue
        if op == "get":
            try:
                got = vm.GetGlobal(name)
            except Exception as e:
                R.violation("getglobal-raises:%s" % type(e).__name__, "%s: GetGlobal(%s) raised %s" % (label, name, e), ctx)
                return
            R.count("getglobal_compared")
            if not sem.values_equal(model.globals[name], got):
                R.violation("global-differs:%s" % kind_of(module, name),
                            "%s: step %d: GetGlobal(%s) on VM %d = %r, reference state machine has %r" % (label, step, name, v, got, model.globals[name]), ctx)
                return
            continue
        # invoke
        ninv += 1
        shared = None
        if op == "invoke_shared":
            # the global's current object itself is passed as the argument
            shared = payload
            obj = vm.GetGlobal(shared["global"])
            payload = dict(shared["args"])
            payload[shared["param"]] = sem.deep_copy(model.globals[shared["global"]])
            R.count("invocations_with_an_argument_shared_with_a_global")
        try:
            model.steps = 0
            exp = model.call(name, payload)
        except (sem.OutOfDomain, sem.RefTimeout, RecursionError):
            R.count("history_cut_out_of_domain")
            return
        obs.reset(50 * model.steps + 10000)
        nslapi.set_observer(obs)
        try:
            try:
                passed = {k: sem.deep_copy(x) for k, x in payload.items()}
                if shared is not None:
                    passed[shared["param"]] = obj
                got = vm.Invoke(name, **passed)
                status = "ok"
            except vmobs.VerifStepLimit:
                status = "nonterminating"
            except Exception as e:
                status = "exception"
                exc = nslapi.exc_info(e)
        finally:
            nslapi.set_observer(None)
        R.count("invocations")
        R.count("vm_instructions", obs.steps)
        if obs.harness_errors:
            R.inconclusive.append("observer error: " + obs.harness_errors[0])
        if status != "ok":
            R.violation("invoke-fails:%s:%s" % (name, status if status != "exception" else exc["cls"]),
                        "%s: step %d: Invoke(%s) %s where the reference returns %r" % (label, step, name, status if status != "exception" else exc, exp), ctx)
            return
        if not sem.values_equal(exp, got):
            R.violation("result-differs:%s" % name, "%s: step %d: Invoke(%s, %r) on VM %d returned %r, reference state machine gives %r"
                        % (label, step, name, payload, v, got, exp), ctx)
            return
        for e in obs.events:
            if e["kind"] == "globals-changed-without-store" or e["kind"] in diff.UNDEF_EVENTS:
                R.violation("monitor:%s:%s" % (e["kind"], e.get("after")), "%s: step %d: %s" % (label, step, e), ctx)
                return
        # the whole global state after the call (not only what the history happens to read later)
        for g in gnames:
            if not sem.values_equal(model.globals[g], vm.GetGlobal(g)):
                R.violation("global-differs-after:%s:%s" % (name, kind_of(module, g)),
                            "%s: step %d: after Invoke(%s) global %s = %r, reference has %r" % (label, step, name, g, vm.GetGlobal(g), model.globals[g]), ctx)
                return
        # the returned object must not be (part of) the VM's state
        rid = container_ids(got, set())
        gid = set()
        for g in gnames:
            container_ids(vm.GetGlobal(g), gid)
        if rid & gid:
            R.count("returned_value_aliases_global_state")
    after = nslapi.listing(comp.out.ir)
    if after != before:
        R.violation("program-modified-by-execution", "%s: the IR listing changed while the history ran" % label,
                    {"sources": {"main": src}, "optimize": opt, "history": hist})
        return
    if nvms > 1:
        sets = []
        for vm in vms:
            acc = set()
            for g in gnames:
                container_ids(vm.GetGlobal(g), acc)
            sets.append(acc)
        for a in range(nvms):
            for b in range(a + 1, nvms):
                if sets[a] & sets[b]:
                    R.violation("vms-share-mutable-state", "%s: VM %d and VM %d share a mutable container in their globals" % (label, a, b),
                                {"sources": {"main": src}, "optimize": opt, "history": hist, "vms": nvms})
                    return
    R.count("histories_completed")
    if ninv >= 2 or nvms >= 2:
        R.nontriv(src, repr(hist), opt)


def kind_of(module, g):
    for t, n in module.globals:
        if n == g:
            return t if isinstance(t, str) else t[0]
    return "?"


def run_shard(tier, seed, shard, n, R):
    obs = vmobs.Observer(globals_mon=True)
    for j in range(BUDGET[tier]):
        s = (seed * 1000003 + shard) * 100000 + j
        rng = random.Random(s)
        if j % 4 == 3:
            module = gcore.CoreGen(rng, gcore.Cfg(n_exports=3, max_stmts=8, void_exports=True)).gen_module()
            if not module.globals:
                continue
        else:
            module = gstate.gen_module(rng)
        src = print_module(module)
        for opt in ((False, True) if j % 2 == 0 else (False,)):
            comp = diff.Compiled(src, optimize=opt)
            R.count("programs")
            if not comp.runnable:
                R.violation("program-not-runnable:%s" % (comp.out.gate,), "state program rejected or failing: %s %s" % (comp.out.reject, comp.out.post_exc),
                            {"sources": {"main": src}, "optimize": opt})
                continue
            for h in range(2):
                nvms = rng.choice([1, 1, 2, 3])
                hist = gstate.gen_history(rng, module, nvms, rng.randint(10, 60))
                run_history(R, obs, comp, module, src, hist, nvms, opt, "program %d history %d" % (s, h))
                R.count("histories")
        if j == 0:
            R.sample({"source": src[:1500], "history_prefix": [list(map(str, o)) for o in hist[8:14]]})


def finalize(M, tier):
    out = []
    if M.counters.get("invocations", 0) == 0:
        out.append("no invocation was compared")
    if M.counters.get("histories_completed", 0) == 0 and not M.violations:
        out.append("no history ran to its end")
    return out


def replay(case):
    from ..driver import Result
    src = case["sources"]["main"]
    comp = diff.Compiled(src, optimize=bool(case.get("optimize")))
    if not comp.runnable:
        return True, {"gate": comp.out.gate, "post": comp.out.post_exc}
    if "history" not in case:
        return False, {}
    # rebuild the generator tree is not possible from text: replay executes the history on the VM and reports values
    vms = [nslapi.make_vm(comp.program) for _ in range(case.get("vms", 1))]
    log = []
    for v, op, name, payload in case["history"]:
        try:
            if op == "set":
                vms[v].SetGlobal(name, payload)
            elif op == "get":
                log.append((v, op, name, vms[v].GetGlobal(name)))
            elif op == "invoke_shared":
                a = dict(payload["args"])
                a[payload["param"]] = vms[v].GetGlobal(payload["global"])
                log.append((v, op, name, vms[v].Invoke(name, **a)))
            else:
                log.append((v, op, name, vms[v].Invoke(name, **payload)))
        except Exception as e:
            log.append((v, op, name, "raised %s: %s" % (type(e).__name__, e)))
            return True, {"log": log[-6:]}
    return False, {"log": log[-6:], "note": "history re-executed; compare the last entries with the 'what' text of the violation"}
