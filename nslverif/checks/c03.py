"""C03 — calls pass arguments by value into isolated frames and reach the chosen overload.

Deciding monitors: (a) frame-isolation monitor inside the VM hook: at every executed CALL the
caller's arguments and named scalar/vector/matrix locals are snapshotted and compared by value when
control returns to that activation; (b) differential execution against RefSem on programs in which
every caller folds all its parameters and locals into a checksum after every call; (c) overloads
return distinct constants; (d) host-side: the objects passed to Invoke are compared with pristine
copies after the call (vector/matrix arguments).
"""
import random

from .. import diff
from ..gen import calls as gcalls, core as gcore, vec as gvec
from ..lang import print_module, is_vec, is_mat
from ..mon import vmobs
from ..ref import sem

PROPERTY = "C03"
TECHNIQUE = "frame-isolation monitor at every executed CALL (VM hook) + differential VM run vs reference interpreter on checksumming call graphs"
LEVEL_TEXT = ("Directed families (factorial, fibonacci, mutual recursion with modified parameters and surviving locals; by-value for every "
              "parameter kind x write form x call site; mixed arity; overload sets in several declaration orders; unnamed parameters before / between / after named ones) run completely, each also with its callees compiled as a separate library that the callers import; "
              "seeded random call graphs with scalar, vector and matrix parameters, self-recursion and loops around calls. At every "
              "executed CALL the VM hook compares the caller's arguments and named locals before and after by value; results are "
              "compared with the reference interpreter.")
LEVEL_NOTE = ("Trusted: reference interpreter (fresh frame per call, arguments copied), the observer's snapshot/compare. Arrays and "
              "structs are reference-like in this VM (the repository's tests rely on it) and are excluded from the snapshot comparison; "
              "float->int argument conversions only where floor = trunc.")
RULE = ("case = (source, function, inputs); non-trivial when >= 1 CALL was executed whose callee stored to a parameter or a local "
        "(measured by the observer) and the frame monitor completed >= 1 comparison; distinct by (source, inputs).")
ASSUMPTIONS = ["RefSem call semantics = statement of C03", "a changed *value* of a caller argument/local across a call is the violation; identities are diagnosis only"]
SHARD_TIMEOUT = {"quick": 900, "thorough": 5400}
BUDGET = {"quick": 120, "thorough": 3000}
FRAME_EVENTS = ("caller-args-changed", "caller-local-changed", "caller-local-vanished")


def shards(tier):
    return 16


def host_check(R, module, res, calls, name):
    flat = [(fn, a, g) for fn, ins in calls for a, g in ins]
    for (fn, a, g), (ref, vm) in zip(flat, res["runs"]):
        if vm is None:
            continue
        f = module.func(fn)
        for t, n in f.params:
            if (is_vec(t) or is_mat(t)) and n in a:
                R.count("host_argument_checks")
                if not sem.values_equal(a[n], vm.passed.get(n)):
                    R.violation("host-argument-mutated:%s" % ("vector" if is_vec(t) else "matrix"),
                                "%s: the list passed to Invoke for parameter %s was changed by the call: %r -> %r" % (name, n, a[n], vm.passed.get(n)),
                                {"sources": {"main": res["source"]}, "function": fn, "inputs": {"args": a, "globals": g}})
        if vm.status == "ok" and vm.calls >= 1 and vm.callee_stores >= 1 and vm.frame_checks >= 1:
            R.nontriv(res["source"], fn, a, g)
        R.count("call_events", vm.calls)
        R.count("frame_comparisons", vm.frame_checks)
        R.maximum("max_call_depth", vm.depth)


def imported_variant(R, obs, name, module, calls, family):
    """the same program with its callees in a separately compiled library that the callers import: binding, isolation and
    the chosen overload must not depend on where the callee was compiled"""
    for part in ("all", "even", "odd"):
        sp = diff.split_for_import(module, part=part)
        if sp is None:
            R.count("not_splittable:" + part)
            continue
        res = diff.check_program(R, obs, name + "/imported-" + part, module, calls, None, family + ("" if part == "all" else ":spread"),
                                 extra_events=FRAME_EVENTS, split=sp)
        R.count("imported_variants:" + part)
        if res["runnable"] and res["bad"] == 0:
            R.nontriv("imported", part, res["source"])


def run_shard(tier, seed, shard, n, R):
    obs = vmobs.Observer(frames=True)
    cases = gcalls.directed_cases()
    R.flags["directed_families_complete"] = True
    for i, (name, module, calls) in enumerate(cases):
        if i % n != shard:
            continue
        res = diff.check_program(R, obs, name, module, calls, None, name.split(":")[0] if not name.startswith("byvalue") else name,
                                 extra_events=FRAME_EVENTS)
        host_check(R, module, res, calls, name)
        R.count("directed_cases")
        imported_variant(R, obs, name, module, calls, (name.split(":")[0] if not name.startswith("byvalue") else name) + ":imported")
        if i % 23 == shard:
            R.sample({"case": name, "source": print_module(module)})
    for j in range(BUDGET[tier]):
        s = (seed * 1000003 + shard) * 100000 + j
        rng = random.Random(s)
        kind = j % 3
        if kind == 0:
            module = gcalls.CallGen(rng).gen_module()
        elif kind == 1:
            module = gvec.VecGen(rng, gvec.VCfg(n_helpers=3)).gen_module()
        else:
            module = gcore.CoreGen(rng, gcore.Cfg(n_helpers=3, max_stmts=10)).gen_module()
        f = [x for x in module.funcs if x.exported][-1]
        inputs = gcore.gen_inputs(rng, module, f, 3)
        calls = [(f.name, inputs)]
        res = diff.check_program(R, obs, "random:%d" % s, module, calls, None, "random:%s" % ("callgraph", "vec", "core")[kind],
                                 extra_events=FRAME_EVENTS)
        host_check(R, module, res, calls, "random:%d" % s)
        R.count("random_programs")
        if kind == 0:
            imported_variant(R, obs, "random:%d" % s, module, calls, "random:callgraph:imported")
        if j == 0:
            R.sample({"case": "random:%d" % s, "source": print_module(module)})
    R.count("observer_total_calls", obs.total_calls)
    R.count("observer_total_frame_checks", obs.total_frame_checks)


def finalize(M, tier):
    out = []
    if M.counters.get("observer_total_frame_checks", 0) == 0:
        out.append("the frame-isolation monitor never completed a comparison (hook not reached?)")
    if M.counters.get("call_events", 0) == 0:
        out.append("no CALL was executed")
    return out


def replay(case):
    return diff.replay_program(case)
