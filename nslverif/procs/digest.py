"""Fresh-process helper (C18): compile a list of history sources, then the target, each with a fresh
Compiler; print digests of the target's IR listing and wasm bytes (or the outcome when there is none).

stdin: {"cwd": dir|null, "history": [src...], "target": src, "optimize": bool, "audit": bool}
"""
import hashlib
import json
import os
import sys


def digest_of(src, optimize):
    from nslverif import nslapi
    out = {}
    o = nslapi.compile_source(src, optimize=optimize, wasm=False)
    if o.usable:
        out["ir"] = hashlib.sha256(nslapi.listing(o.ir).encode()).hexdigest()
    else:
        out["ir"] = "no-module:%s:%s" % (o.gate, (o.reject or o.post_exc or {}).get("cls"))
    w = nslapi.compile_source(src, optimize=optimize, wasm=True)
    if w.usable and w.wasm is not None:
        try:
            out["wasm"] = hashlib.sha256(nslapi.wasm_bytes(w.wasm)).hexdigest()
        except Exception as e:
            out["wasm"] = "write-raises:%s" % type(e).__name__
    else:
        out["wasm"] = "no-module:%s:%s" % (w.gate, (w.reject or w.post_exc or {}).get("cls"))
    return out


def main():
    job = json.load(sys.stdin)
    if job.get("cwd"):
        os.chdir(job["cwd"])
    opened = []
    if job.get("audit"):
        def hook(event, args):
            if event == "open" and isinstance(args[0], str):
                opened.append(args[0])
        sys.addaudithook(hook)
    from nslverif import nslapi   # noqa: F401  (imports nsl, builds nothing yet)
    n0 = len(opened)
    for h in job.get("history", []):
        try:
            digest_of(h, job.get("optimize", False))
        except BaseException:
            pass
    n1 = len(opened)
    res = digest_of(job["target"], job.get("optimize", False))
    res["opened_during_target"] = sorted({os.path.basename(p) for p in opened[n1:]})
    res["hashseed"] = os.environ.get("PYTHONHASHSEED")
    sys.stdout.write("\n@@RESULT@@" + json.dumps(res))


if __name__ == "__main__":
    main()
