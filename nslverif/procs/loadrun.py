"""Fresh-process helper (C16/C17): load stored IR modules through the repository's FilesystemModuleLoader,
link, run calls on the VM, print listing and results as JSON.

stdin: {"cwd": dir, "modules": [names to AddModule in this order], "calls": [[fname, args, globals]], "listing_of": name|null}
"""
import json
import os
import sys


def main():
    job = json.load(sys.stdin)
    os.chdir(job["cwd"])
    from nsl import LinearIR, VM
    out = {"loads": [], "results": [], "error": None, "listing": None}

    class Loader(LinearIR.FilesystemModuleLoader):
        def Load(self, name):
            out["loads"].append(name)
            return super().Load(name)

    try:
        loader = Loader()
        linker = LinearIR.Linker(loader=loader)
        mods = []
        for name in job["modules"]:
            m = LinearIR.FilesystemModuleLoader().Load(name)
            mods.append(m)
            linker.AddModule(m)
        if job.get("listing_of") is not None:
            buf = []

            def pr(*a, end="\n"):
                buf.append(" ".join(str(x) for x in a) + end)
            p = LinearIR.InstructionPrinter(pr)
            for f in mods[job["modules"].index(job["listing_of"])].Functions.values():
                p.Print(f)
            out["listing"] = "".join(buf)
        program = linker.Link()
        out["functions"] = sorted(program.Functions.keys())
        for fname, args, gl in job["calls"]:
            vm = VM.VirtualMachine(program)
            for k, v in gl.items():
                vm.SetGlobal(k, v)
            try:
                r = vm.Invoke(fname, **args)
                out["results"].append({"status": "ok", "value": r, "globals": {k: vm.GetGlobal(k) for k in gl}})
            except Exception as e:
                out["results"].append({"status": "exception", "cls": type(e).__name__, "msg": str(e)[:100]})
    except BaseException as e:
        out["error"] = {"cls": type(e).__name__, "msg": str(e)[:200]}
    sys.stdout.write("\n@@RESULT@@" + json.dumps(out))


if __name__ == "__main__":
    main()
