"""Fresh-process helper (C16): several link rounds in ONE process, each with a default-constructed Linker (the
repository's default loader), while stored module files are replaced between the rounds.

stdin: {"cwd": dir, "rounds": [{"install": {dst: src, ...}, "modules": [root files], "calls": [[fname, args, globals]]}, ...]}
Each round first copies the files in `install` (src -> dst, both relative to cwd), then links and runs."""
import json
import os
import shutil
import sys


def main():
    job = json.load(sys.stdin)
    os.chdir(job["cwd"])
    from nsl import LinearIR, VM
    out = {"rounds": [], "error": None}
    try:
        for rd in job["rounds"]:
            for dst, src in rd.get("install", {}).items():
                if os.path.dirname(dst):
                    os.makedirs(os.path.dirname(dst), exist_ok=True)
                shutil.copyfile(src, dst)
            res = {"results": [], "error": None}
            try:
                linker = LinearIR.Linker()
                for name in rd["modules"]:
                    linker.AddModule(LinearIR.FilesystemModuleLoader().Load(name))
                program = linker.Link()
                for fname, args, gl in rd["calls"]:
                    vm = VM.VirtualMachine(program)
                    for k, v in gl.items():
                        vm.SetGlobal(k, v)
                    try:
                        r = vm.Invoke(fname, **args)
                        res["results"].append({"status": "ok", "value": r})
                    except Exception as e:
                        res["results"].append({"status": "exception", "cls": type(e).__name__})
            except BaseException as e:
                res["error"] = {"cls": type(e).__name__, "msg": str(e)[:200]}
            out["rounds"].append(res)
    except BaseException as e:
        out["error"] = {"cls": type(e).__name__, "msg": str(e)[:200]}
    sys.stdout.write("\n@@RESULT@@" + json.dumps(out))


if __name__ == "__main__":
    main()
