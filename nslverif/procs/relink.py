"""Fresh-process helper (C16): several link rounds in ONE process, each with a default-constructed Linker (the
repository's default loader), while stored module files are replaced between the rounds.

With "one_linker": true all rounds share ONE Linker object: each round adds its modules to it and calls Link() again.

stdin: {"cwd": dir, "rounds": [{"install": {dst: src, ...}, "modules": [root files], "calls": [[fname, args, globals]]}, ...]}
Each round first copies the files in `install` (src -> dst, both relative to cwd), then links and runs."""
import json
import os
import shutil
import sys


def main():
    job = json.load(sys.stdin)
    os.chdir(job["cwd"])
    from nsl import LinearIR, VM
    out = {"rounds": [], "error": None}
    try:
        for rd in job["rounds"]:
            for dst, src in rd.get("install", {}).items():
                if os.path.dirname(dst):
                    os.makedirs(os.path.dirname(dst), exist_ok=True)
                shutil.copyfile(src, dst)
            res = {"results": [], "error": None}
            try:
                if job.get("memory_loader"):
                    # one MemoryModuleLoader for all rounds: it hands out the same Module objects link after link
                    if "mem" not in out:
                        out["mem"] = True
                        mem = LinearIR.MemoryModuleLoader()
                        roots_cache = {}
                        for imp, path in job["memory_loader"].items():
                            mem.AddModule(imp, LinearIR.FilesystemModuleLoader().Load(path))
                    linker = LinearIR.Linker(loader=mem)
                    for name in rd["modules"]:
                        if name not in roots_cache:
                            roots_cache[name] = LinearIR.FilesystemModuleLoader().Load(name)
                        linker.AddModule(roots_cache[name])
                elif job.get("one_linker"):
                    # ONE linker for all rounds: every round adds its modules to it and links again
                    if "lk" not in out:
                        out["lk"] = True
                        the_linker = LinearIR.Linker()
                    linker = the_linker
                    for name in rd["modules"]:
                        linker.AddModule(LinearIR.FilesystemModuleLoader().Load(name))
                else:
                    linker = LinearIR.Linker()
                    for name in rd["modules"]:
                        linker.AddModule(LinearIR.FilesystemModuleLoader().Load(name))
                program = linker.Link()
                for fname, args, gl in rd["calls"]:
                    vm = VM.VirtualMachine(program)
                    for k, v in gl.items():
                        vm.SetGlobal(k, v)
                    try:
                        r = vm.Invoke(fname, **args)
                        res["results"].append({"status": "ok", "value": r})
                    except Exception as e:
                        res["results"].append({"status": "exception", "cls": type(e).__name__})
            except BaseException as e:
                res["error"] = {"cls": type(e).__name__, "msg": str(e)[:200]}
            out["rounds"].append(res)
    except BaseException as e:
        out["error"] = {"cls": type(e).__name__, "msg": str(e)[:200]}
    out.pop("lk", None)
    out.pop("mem", None)
    sys.stdout.write("\n@@RESULT@@" + json.dumps(out))


if __name__ == "__main__":
    main()
