"""Subprocess plumbing for the checks that cross process boundaries (nslc.py, nslr.py, fresh loaders)."""
import json
import os
import subprocess

from .. import bootstrap


def env_for(hashseed="0", extra_path=None):
    env = dict(os.environ)
    env["PYTHONHASHSEED"] = str(hashseed)
    env["PYTHONDONTWRITEBYTECODE"] = "1"
    env["NSL_VERIF"] = "1"
    pp = [extra_path or bootstrap.repo_path(), bootstrap.VERIF]
    env["PYTHONPATH"] = os.pathsep.join(pp)
    return env


def nslc(cwd, src_name, out_name, optimize=False, wasm=False, hashseed="0", timeout=120, repo=None):
    repo = repo or bootstrap.repo_path()
    cmd = [bootstrap.PYTHON, os.path.join(repo, "nslc.py")]
    if optimize:
        cmd += ["-O", "1"]
    if wasm:
        cmd += ["--wasm"]
    cmd += [src_name, "-o", out_name]
    try:
        r = subprocess.run(cmd, cwd=cwd, env=env_for(hashseed, repo), stdout=subprocess.PIPE, stderr=subprocess.STDOUT, timeout=timeout)
    except subprocess.TimeoutExpired:
        return None, "timeout"
    return r.returncode, r.stdout.decode("utf-8", "replace")[-600:]


def helper(module, job, hashseed="0", timeout=120, repo=None):
    """run `python -m nslverif.procs.<module>` with the JSON job on stdin; returns the decoded result dict or {'error':..}"""
    cmd = [bootstrap.PYTHON, "-m", "nslverif.procs." + module]
    try:
        r = subprocess.run(cmd, input=json.dumps(job).encode(), env=env_for(hashseed, repo), stdout=subprocess.PIPE,
                           stderr=subprocess.STDOUT, timeout=timeout, cwd=bootstrap.VERIF)
    except subprocess.TimeoutExpired:
        return {"error": {"cls": "Timeout", "msg": ""}}
    text = r.stdout.decode("utf-8", "replace")
    if "@@RESULT@@" not in text:
        return {"error": {"cls": "HelperDied", "msg": text[-400:]}}
    return json.loads(text.split("@@RESULT@@", 1)[1])
