"""As digest.py, but lets PLY read / regenerate / rewrite its table file in the (scratch) package it runs from:
the yacc wrapper of nslapi is switched to table-writing mode first."""
import sys


def main():
    from nslverif import nslapi
    nslapi._WRITE_TABLES = True
    from nslverif.procs import digest
    digest.main()


if __name__ == "__main__":
    main()
