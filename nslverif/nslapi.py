"""Thin, observing wrapper around the real NSL compiler, linker and VM.

Nothing here re-implements compiler behaviour: `compile_source` drives the real
`Compiler().Compile`, with every pass object replaced by a recording proxy
(mon.passes) so that the *front-end gate* (all AST passes completed and returned
true) is observed where it happens instead of being inferred from the return value.
"""
import contextlib
import io
import os
import sys
import traceback

from . import bootstrap

bootstrap.setup_paths()

import ply.yacc as _yacc  # noqa: E402

_real_yacc = _yacc.yacc
_WRITE_TABLES = False


def _quiet_yacc(*a, **kw):
    if not _WRITE_TABLES:
        kw.setdefault("write_tables", False)
        kw.setdefault("debug", False)
        kw.setdefault("errorlog", _yacc.NullLogger())
    return _real_yacc(*a, **kw)


_yacc.yacc = _quiet_yacc

import nsl  # noqa: E402
from nsl import Compiler as _Compiler  # noqa: E402
from nsl import LinearIR, VM  # noqa: E402
import nsl.parser  # noqa: E402
import nsl.passes.LowerToIR as _LowerToIR  # noqa: E402
import nsl.passes.GenerateWasm as _GenerateWasm  # noqa: E402


class Harness(Exception):
    """Raised when the harness itself cannot observe (=> inconclusive, never a violation)."""


@contextlib.contextmanager
def quiet():
    old_out, old_err = sys.stdout, sys.stderr
    sys.stdout = io.StringIO()
    sys.stderr = io.StringIO()
    try:
        yield sys.stdout
    finally:
        sys.stdout, sys.stderr = old_out, old_err


def nsl_frame(tb):
    """Innermost traceback frame that lies in the nsl package: (file, function, line)."""
    best = None
    root = os.path.dirname(nsl.__file__)
    for fs in traceback.extract_tb(tb):
        if fs.filename.startswith(root):
            best = (os.path.relpath(fs.filename, root), fs.name, fs.lineno)
    return best


def exc_info(e):
    fr = nsl_frame(e.__traceback__)
    return {"cls": type(e).__name__, "msg": str(e)[:200],
            "where": "%s:%s" % (fr[0], fr[1]) if fr else "?", "line": fr[2] if fr else 0}


class PassProxy:
    """Stands in for one pass object inside the real Compiler; forwards everything,
    records Process() calls, their result or exception, and lets a listener look at
    the data after the pass."""

    def __init__(self, inner, kind, log, listener=None):
        self._inner = inner
        self._kind = kind
        self._log = log
        self._listener = listener

    def __getattr__(self, name):
        return getattr(self._inner, name)

    @property
    def pass_name(self):
        try:
            n = self._inner.Name
        except Exception:
            n = type(self._inner).__name__
        if n == "ComputeTypesPass":
            n = "compute-types"
        return n

    def Process(self, root, *a, **kw):
        ev = {"kind": self._kind, "name": self.pass_name, "ok": None, "exc": None}
        self._log.append(ev)
        try:
            r = self._inner.Process(root, *a, **kw)
        except BaseException as e:
            ev["exc"] = exc_info(e)
            raise
        ev["ok"] = bool(r)
        if self._listener is not None:
            self._listener(self._kind, ev["name"], root, self._inner)
        return r


class Outcome:
    __slots__ = ("source", "options", "parsed", "gate", "reject", "result", "post_exc",
                 "passes", "ast", "ir", "wasm", "compile_raised")

    def __init__(self):
        self.parsed = False
        self.gate = None          # 'accepted' | 'rejected'
        self.reject = None        # why rejected: dict(stage, name, cls, msg)
        self.result = None
        self.post_exc = None      # exception after the gate (lowering, IR passes, wasm)
        self.passes = []
        self.ast = None
        self.ir = None
        self.wasm = None
        self.compile_raised = None

    @property
    def accepted(self):
        return self.gate == "accepted"

    @property
    def usable(self):
        return self.gate == "accepted" and self.result is not None and self.post_exc is None


N_AST_PASSES_SEEN = [0]


def compile_source(source, optimize=False, wasm=False, listener=None, extra_options=None):
    """Run the real compiler on `source`.  Never raises for compiler behaviour; raises
    Harness only when the compiler's structure cannot be observed."""
    out = Outcome()
    out.source = source
    opts = {"optimize": bool(optimize), "wasm": bool(wasm)}
    if extra_options:
        opts.update(extra_options)
    out.options = opts
    log = out.passes
    with quiet():
        c = _Compiler.Compiler()
        try:
            ast_passes = list(c.astPasses)
            ir_passes = list(c.irPasses)
        except AttributeError as e:  # structure changed
            raise Harness("Compiler has no astPasses/irPasses lists: %s" % e)
        n_ast = len(ast_passes)
        c.astPasses = [PassProxy(p, "AST", log, listener) for p in ast_passes]
        c.irPasses = [PassProxy(p, "IR", log, listener) for p in ir_passes]

        real_parse = c.parser.Parse

        def parse(text, **kw):
            t = real_parse(text, **kw)
            out.parsed = t is not None
            out.ast = t
            return t

        c.parser.Parse = parse

        real_lower_get = _LowerToIR.GetPass
        real_wasm_get = _GenerateWasm.GetPass

        def lower_get():
            return PassProxy(real_lower_get(), "LOWER", log, listener)

        def wasm_get():
            return PassProxy(real_wasm_get(), "WASM", log, listener)

        _LowerToIR.GetPass = lower_get
        _GenerateWasm.GetPass = wasm_get
        try:
            try:
                out.result = c.Compile(source, opts)
            except SystemExit as e:
                out.compile_raised = {"cls": "SystemExit", "msg": str(e.code), "where": "parser", "line": 0}
            except RecursionError as e:
                out.compile_raised = {"cls": "RecursionError", "msg": "", "where": "?", "line": 0}
            except Exception as e:
                out.compile_raised = exc_info(e)
        finally:
            _LowerToIR.GetPass = real_lower_get
            _GenerateWasm.GetPass = real_wasm_get

    ast_events = [ev for ev in log if ev["kind"] == "AST"]
    N_AST_PASSES_SEEN[0] += len(ast_events)
    if not out.parsed:
        out.gate = "rejected"
        out.reject = {"stage": "parse", "name": "parser",
                      "cls": (out.compile_raised or {}).get("cls", "None"),
                      "msg": (out.compile_raised or {}).get("msg", "")}
        return out
    bad = [ev for ev in ast_events if ev["ok"] is not True]
    if bad:
        ev = bad[0]
        out.gate = "rejected"
        out.reject = {"stage": "ast", "name": ev["name"],
                      "cls": (ev["exc"] or {}).get("cls", "False"),
                      "msg": (ev["exc"] or {}).get("msg", ""),
                      "where": (ev["exc"] or {}).get("where", "")}
        return out
    if len(ast_events) != n_ast:
        raise Harness("front-end gate not observable: %d of %d AST passes ran without failure"
                      % (len(ast_events), n_ast))
    out.gate = "accepted"
    if out.compile_raised is not None:
        out.post_exc = dict(out.compile_raised)
        stage = "post"
        for ev in log:
            if ev["kind"] != "AST" and ev["exc"] is not None:
                stage = "%s:%s" % (ev["kind"].lower(), ev["name"])
                break
        out.post_exc["stage"] = stage
    elif out.result is None:
        fail = [ev for ev in log if ev["kind"] != "AST" and ev["ok"] is False]
        out.post_exc = {"cls": "PassReturnedFalse", "msg": "", "where": fail[0]["name"] if fail else "?",
                        "stage": "post", "line": 0}
    else:
        out.ir = out.result.IRModule
        out.wasm = out.result.WasmModule
    return out


def listing(module):
    """Text of the IR module as printed by the repository's own InstructionPrinter."""
    buf = []

    def pr(*args, end="\n"):
        buf.append(" ".join(str(a) for a in args) + end)

    p = LinearIR.InstructionPrinter(pr)
    for f in module.Functions.values():
        p.Print(f)
    return "".join(buf)


class MemLoader(LinearIR.ModuleLoader):
    def __init__(self, modules=None):
        self.modules = dict(modules or {})
        self.loads = []

    def Load(self, name):
        self.loads.append(name)
        return self.modules[name]


def link(modules, loader=None):
    """Link IR modules with the real linker."""
    if loader is None:
        loader = MemLoader()
    linker = LinearIR.Linker(loader=loader)
    for m in modules:
        linker.AddModule(m)
    return linker.Link()


def make_vm(program):
    return VM.VirtualMachine(program)


def wasm_bytes(wasm_module):
    b = io.BytesIO()
    wasm_module.WriteTo(b)
    return b.getvalue()


def set_observer(obs):
    if not getattr(VM, "_VERIF", False):
        raise Harness("VM hook guard is off (nsl.VM._VERIF false): hook missing or NSL_VERIF unset")
    VM._VERIF_OBSERVER = obs


def ensure_parser_tables():
    """Called once by the driver before shards start: lets PLY (re)write nsl/parsetab.py
    for the current grammar so that workers can read it instead of regenerating."""
    global _WRITE_TABLES
    _WRITE_TABLES = True
    try:
        with quiet():
            nsl.parser.NslParser()
    finally:
        _WRITE_TABLES = False
