"""The generators' own syntax tree for NSL programs, its type helpers and its printer.

This tree is the ground truth of every differential check: programs are *generated* as
these nodes, printed to NSL text for the compiler under test, and evaluated directly on
the nodes by ref/sem.py.  Nothing in here imports nsl.
"""

INT, FLOAT, UINT, VOID = "int", "float", "uint", "void"
SCALARS = (INT, FLOAT, UINT)


def vec(c, n):
    return ("vec", c, n)


def mat(c, r, k):
    return ("mat", c, r, k)


def arr(elem, dims):
    return ("arr", elem, tuple(dims))


def struct_t(name):
    return ("struct", name)


def is_scalar(t):
    return t in SCALARS


def is_vec(t):
    return isinstance(t, tuple) and t[0] == "vec"


def is_mat(t):
    return isinstance(t, tuple) and t[0] == "mat"


def is_arr(t):
    return isinstance(t, tuple) and t[0] == "arr"


def is_struct(t):
    return isinstance(t, tuple) and t[0] == "struct"


def is_prim(t):
    return is_scalar(t) or is_vec(t) or is_mat(t)


def comp(t):
    """component type of a primitive"""
    return t if is_scalar(t) else t[1]


def type_str(t):
    if isinstance(t, str):
        return t
    if t[0] == "vec":
        return "%s%d" % (t[1], t[2])
    if t[0] == "mat":
        return "%s%dx%d" % (t[1], t[2], t[3])
    if t[0] == "arr":
        return type_str(t[1]) + "".join("[%d]" % d for d in t[2])
    if t[0] == "struct":
        return t[1]
    raise ValueError(t)


_RANK = {UINT: 0, INT: 1, FLOAT: 2}


def promote(a, b):
    """wider of float > int > uint"""
    return a if _RANK[a] >= _RANK[b] else b


ARITH = ("+", "-", "*", "/", "%")
CMP = ("<", "<=", ">", ">=", "==", "!=")
LOGIC = ("&&", "||")
BINOPS = ARITH + CMP + LOGIC  # the 13 binary operators
PREC = {"||": 1, "&&": 2, "==": 3, "!=": 3, "<": 4, "<=": 4, ">": 4, ">=": 4,
        "+": 5, "-": 5, "*": 6, "/": 6, "%": 6}


class N:
    __slots__ = ()

    def __repr__(self):
        return "%s(%s)" % (type(self).__name__,
                           ", ".join("%s=%r" % (k, getattr(self, k)) for k in self.__slots__))


# ---------------------------------------------------------------- expressions
class IntLit(N):
    __slots__ = ("value", "spelling", "ty")

    def __init__(self, value, spelling=None):
        self.value = value
        self.spelling = spelling if spelling is not None else str(value)
        self.ty = INT


class FloatLit(N):
    __slots__ = ("value", "spelling", "ty")

    def __init__(self, value, spelling=None):
        self.value = float(value)
        self.spelling = spelling
        self.ty = FLOAT


class Var(N):
    __slots__ = ("name", "ty")

    def __init__(self, name, ty):
        self.name = name
        self.ty = ty


class Index(N):
    __slots__ = ("base", "idx", "ty")

    def __init__(self, base, idx, ty):
        self.base, self.idx, self.ty = base, idx, ty


class Field(N):
    __slots__ = ("base", "name", "ty")

    def __init__(self, base, name, ty):
        self.base, self.name, self.ty = base, name, ty


class Swizzle(N):
    __slots__ = ("base", "mask", "ty")

    def __init__(self, base, mask, ty=None):
        self.base, self.mask = base, mask
        if ty is None:
            c = comp(base.ty)
            ty = c if len(mask) == 1 else vec(c, len(mask))
        self.ty = ty


class Bin(N):
    __slots__ = ("op", "l", "r", "ty", "paren")

    def __init__(self, op, l, r, ty, paren=False):
        self.op, self.l, self.r, self.ty, self.paren = op, l, r, ty, paren


class Assign(N):
    """target op value, op in = += -= *= /="""
    __slots__ = ("op", "target", "value", "ty")

    def __init__(self, op, target, value):
        self.op, self.target, self.value = op, target, value
        self.ty = target.ty


class Affix(N):
    __slots__ = ("op", "prefix", "var", "ty")

    def __init__(self, op, prefix, var):
        self.op, self.prefix, self.var = op, prefix, var
        self.ty = var.ty


class Call(N):
    __slots__ = ("name", "args", "ty", "fn")

    def __init__(self, name, args, ty, fn):
        self.name, self.args, self.ty, self.fn = name, args, ty, fn  # fn: Func node


class Construct(N):
    __slots__ = ("ty", "args")

    def __init__(self, ty, args):
        self.ty, self.args = ty, args


# ----------------------------------------------------------------- statements
class Decl(N):
    __slots__ = ("ty", "name", "init")

    def __init__(self, ty, name, init=None):
        self.ty, self.name, self.init = ty, name, init


class ExprStmt(N):
    __slots__ = ("e",)

    def __init__(self, e):
        self.e = e


class Block(N):
    __slots__ = ("stmts",)

    def __init__(self, stmts):
        self.stmts = stmts


class If(N):
    __slots__ = ("c", "then", "els")

    def __init__(self, c, then, els=None):
        self.c, self.then, self.els = c, then, els


class For(N):
    __slots__ = ("init", "cond", "nxt", "body")

    def __init__(self, init, cond, nxt, body):
        self.init, self.cond, self.nxt, self.body = init, cond, nxt, body


class While(N):
    __slots__ = ("c", "body")

    def __init__(self, c, body):
        self.c, self.body = c, body


class Do(N):
    __slots__ = ("body", "c")

    def __init__(self, body, c):
        self.body, self.c = body, c


class Break(N):
    __slots__ = ()


class Continue(N):
    __slots__ = ()


class Return(N):
    __slots__ = ("e",)

    def __init__(self, e=None):
        self.e = e


class Func(N):
    __slots__ = ("name", "params", "ret", "body", "exported")

    def __init__(self, name, params, ret, body, exported=False):
        self.name, self.params, self.ret, self.body, self.exported = name, params, ret, body, exported


class Module(N):
    __slots__ = ("structs", "globals", "funcs", "imports")

    def __init__(self, structs=None, globals=None, funcs=None, imports=None):
        self.structs = structs or []      # [(name, [(type, field)])]
        self.globals = globals or []      # [(type, name)]
        self.funcs = funcs or []
        self.imports = imports or []

    def struct_fields(self, name):
        for n, fields in self.structs:
            if n == name:
                return fields
        raise KeyError(name)

    def func(self, name):
        for f in self.funcs:
            if f.name == name and f.exported:
                return f
        for f in self.funcs:
            if f.name == name:
                return f
        raise KeyError(name)


# -------------------------------------------------------------------- printer
def float_spelling(v):
    """default spelling of a non-negative finite float literal"""
    s = repr(float(v))
    if "e" in s or "E" in s:
        # repr like 1e-05 / 1e+16: NSL's float regex accepts exponent forms
        return s
    return s


def expr_tokens(e, out):
    """Append the token strings of expression e (minimal parentheses) to out."""
    if isinstance(e, IntLit):
        out.append(e.spelling)
    elif isinstance(e, FloatLit):
        if e.spelling is not None:
            out.append(e.spelling)
        elif e.value < 0 or (e.value == 0 and str(e.value).startswith("-")):
            out.extend(["(", "0.0", "-", float_spelling(-e.value), ")"])
        else:
            out.append(float_spelling(e.value))
    elif isinstance(e, Var):
        out.append(e.name)
    elif isinstance(e, Index):
        expr_tokens(e.base, out)
        out.append("[")
        expr_tokens(e.idx, out)
        out.append("]")
    elif isinstance(e, Field):
        expr_tokens(e.base, out)
        out.append(".")
        out.append(e.name)
    elif isinstance(e, Swizzle):
        expr_tokens(e.base, out)
        out.append(".")
        out.append(e.mask)
    elif isinstance(e, Bin):
        if e.paren:
            out.append("(")
        _operand(e.l, PREC[e.op], False, out)
        out.append(e.op)
        _operand(e.r, PREC[e.op], True, out)
        if e.paren:
            out.append(")")
    elif isinstance(e, Assign):
        expr_tokens(e.target, out)
        out.append(e.op)
        expr_tokens(e.value, out)
    elif isinstance(e, Affix):
        if e.prefix:
            out.append(e.op)
            out.append(e.var.name)
        else:
            out.append(e.var.name)
            out.append(e.op)
    elif isinstance(e, Call):
        out.append(e.name)
        out.append("(")
        for i, a in enumerate(e.args):
            if i:
                out.append(",")
            expr_tokens(a, out)
        out.append(")")
    elif isinstance(e, Construct):
        out.append(type_str(e.ty))
        out.append("(")
        for i, a in enumerate(e.args):
            if i:
                out.append(",")
            expr_tokens(a, out)
        out.append(")")
    else:
        raise TypeError(e)


def _is_neg_float(e):
    return isinstance(e, FloatLit) and e.spelling is None and (e.value < 0 or str(e.value).startswith("-"))


def _operand(c, parent_prec, is_right, out):
    if isinstance(c, Assign):
        raise ValueError("an assignment cannot be an operand of a binary operator (no parenthesised form)")
    if isinstance(c, Bin) and not c.paren:
        p = PREC[c.op]
        if p < parent_prec or (p == parent_prec and is_right):
            out.append("(")
            expr_tokens(c, out)
            out.append(")")
            return
    expr_tokens(c, out)


def stmt_tokens(s, out):
    if isinstance(s, Decl):
        out.append(type_str(s.ty))
        out.append(s.name)
        if s.init is not None:
            out.append("=")
            expr_tokens(s.init, out)
        out.append(";")
    elif isinstance(s, ExprStmt):
        expr_tokens(s.e, out)
        out.append(";")
    elif isinstance(s, Block):
        out.append("{")
        for x in s.stmts:
            stmt_tokens(x, out)
        out.append("}")
    elif isinstance(s, If):
        out.extend(["if", "("])
        expr_tokens(s.c, out)
        out.append(")")
        stmt_tokens(s.then, out)
        if s.els is not None:
            out.append("else")
            stmt_tokens(s.els, out)
    elif isinstance(s, For):
        out.extend(["for", "("])
        if s.init is not None:
            out.append(type_str(s.init.ty))
            out.append(s.init.name)
            if s.init.init is not None:
                out.append("=")
                expr_tokens(s.init.init, out)
        out.append(";")
        if s.cond is not None:
            expr_tokens(s.cond, out)
        out.append(";")
        if s.nxt is not None:
            expr_tokens(s.nxt, out)
        out.append(")")
        stmt_tokens(s.body, out)
    elif isinstance(s, While):
        out.extend(["while", "("])
        expr_tokens(s.c, out)
        out.append(")")
        stmt_tokens(s.body, out)
    elif isinstance(s, Do):
        out.append("do")
        stmt_tokens(s.body, out)
        out.extend(["while", "("])
        expr_tokens(s.c, out)
        out.append(")")
    elif isinstance(s, Break):
        out.extend(["break", ";"])
    elif isinstance(s, Continue):
        out.extend(["continue", ";"])
    elif isinstance(s, Return):
        out.append("return")
        if s.e is not None:
            expr_tokens(s.e, out)
        out.append(";")
    else:
        raise TypeError(s)


def func_tokens(f, out):
    if f.exported:
        out.append("export")
    out.extend(["function", f.name, "("])
    for i, (t, n) in enumerate(f.params):
        if i:
            out.append(",")
        out.append(type_str(t))
        if n is not None:       # (a parameter may be given by its type only)
            out.append(n)
    out.extend([")", "->", type_str(f.ret)])
    stmt_tokens(f.body, out)


def module_tokens(m):
    out = []
    for imp in m.imports:
        out.extend(["import", '"%s"' % imp, ";"])
    for name, fields in m.structs:
        out.extend(["struct", name, "{"])
        for t, n in fields:
            out.extend([type_str(t), n, ";"])
        out.append("}")
    for t, n in m.globals:
        out.extend([type_str(t), n, ";"])
    for f in m.funcs:
        func_tokens(f, out)
    return out


_NOSPACE_BEFORE = {";", ",", ")", "]", "."}
_NOSPACE_AFTER = {"(", "[", "."}


def join_tokens(tokens):
    """Canonical layout: single spaces, line break after ; { }."""
    parts = []
    prev = None
    depth = 0
    in_for = 0
    for_semi = False
    for t in tokens:
        if prev is None:
            parts.append(t)
        else:
            sep = " "
            if t in _NOSPACE_BEFORE or prev in _NOSPACE_AFTER:
                sep = ""
            if prev in ("{", "}") or (prev == ";" and not for_semi):
                sep = "\n" + "  " * (depth - (1 if t == "}" else 0))
            parts.append(sep + t)
        for_semi = False
        if t == "{":
            depth += 1
        elif t == "}":
            depth -= 1
        elif t == "for":
            in_for = 2
        elif t == ";" and in_for:
            in_for -= 1
            for_semi = True
        prev = t
    return "".join(parts) + "\n"


def print_module(m):
    return join_tokens(module_tokens(m))


def print_expr(e):
    out = []
    expr_tokens(e, out)
    return join_tokens(out).strip()


def full_paren(e):
    """Fully parenthesised rendering of the generator tree (C08 shape oracle)."""
    if isinstance(e, Bin):
        return "(%s %s %s)" % (full_paren(e.l), e.op, full_paren(e.r))
    if isinstance(e, Assign):
        return "(%s %s %s)" % (full_paren(e.target), e.op, full_paren(e.value))
    return print_expr(e)


# ------------------------------------------------------------ typing helpers
def bin_type(op, lt, rt):
    """Result type of `l op r` by the language rules of C09 (None when not defined)."""
    if is_scalar(lt) and is_scalar(rt):
        return INT if op in CMP else promote(lt, rt)
    if is_vec(lt) and is_vec(rt):
        if lt[2] != rt[2] or op in ("*", "/"):
            return None
        return vec(INT, lt[2]) if op in CMP else vec(promote(lt[1], rt[1]), lt[2])
    if is_mat(lt) and is_mat(rt):
        if op == "*":
            if lt[3] != rt[2]:
                return None
            c = promote(lt[1], rt[1])
            return vec(c, lt[2]) if rt[3] == 1 else mat(c, lt[2], rt[3])
        if op in CMP or op == "/" or lt[2:] != rt[2:]:
            return None
        return mat(promote(lt[1], rt[1]), lt[2], lt[3])
    if op == "/" and is_scalar(rt) and (is_vec(lt) or is_mat(lt)):
        c = promote(lt[1], rt)
        return (lt[0], c) + lt[2:]
    if op == "*":
        if is_scalar(rt) and (is_vec(lt) or is_mat(lt)):
            return (lt[0], promote(lt[1], rt)) + lt[2:]
        if is_scalar(lt) and (is_vec(rt) or is_mat(rt)):
            return (rt[0], promote(lt, rt[1])) + rt[2:]
        if is_mat(lt) and is_vec(rt) and lt[3] == rt[2]:
            return vec(promote(lt[1], rt[1]), lt[2])
    return None


def mk_bin(op, l, r, paren=False):
    t = bin_type(op, l.ty, r.ty)
    if t is None:
        raise ValueError("ill-typed %s %s %s" % (type_str(l.ty), op, type_str(r.ty)))
    return Bin(op, l, r, t, paren)


def natural(ops, operands):
    """Tree of `o0 ops[0] o1 ops[1] o2 ...` under the declared precedence, left-assoc."""
    out, opstack = [operands[0]], []
    for op, nd in zip(ops, operands[1:]):
        while opstack and PREC[opstack[-1]] >= PREC[op]:
            o = opstack.pop()
            r = out.pop()
            l = out.pop()
            out.append(mk_bin(o, l, r))
        opstack.append(op)
        out.append(nd)
    while opstack:
        o = opstack.pop()
        r = out.pop()
        l = out.pop()
        out.append(mk_bin(o, l, r))
    return out[0]
