"""Generator for C15: programs with global state of every kind and several exported functions that
read-modify-write it, plus functions whose result depends on *default-initialised locals* (a shared or
surviving default instance shows on the next invocation), and host-operation histories over 1-3 VMs."""
from ..lang import (INT, FLOAT, IntLit, FloatLit, Var, Index, Field, Swizzle, Bin, Assign, Affix, Construct, Decl, ExprStmt,
                    Block, If, For, Return, Func, Module, vec, mat, arr, struct_t, mk_bin)
from . import core as gcore

F2, F3, M3 = vec(FLOAT, 2), vec(FLOAT, 3), mat(FLOAT, 3, 3)
A4 = arr(INT, [4])
AV = arr(F2, [2])
A23 = arr(INT, [2, 3])
ST = struct_t("S")
STRUCTS = [("S", [(INT, "k"), (FLOAT, "q"), (F2, "w")])]
GLOBALS = [(INT, "gi"), (FLOAT, "gf"), (F3, "gv"), (M3, "gm"), (A4, "ga"), (ST, "gs"), (AV, "gav"), (A23, "g2")]


def V(n, t):
    return Var(n, t)


def I(v):
    return IntLit(v)


def F(v):
    return FloatLit(v)


def B(op, l, r):
    return mk_bin(op, l, r)


def fn(name, params, ret, stmts):
    return Func(name, params, ret, Block(stmts), True)


def templates(rng):
    gi, gf, gv, gm, ga, gs, gav, g2 = [V(n, t) for t, n in GLOBALS]
    n, x, i, j = V("n", INT), V("x", FLOAT), V("i", INT), V("j", INT)
    c = rng.randint(2, 5)
    fs = [
        fn("inc", [(INT, "n")], INT, [ExprStmt(Assign("+=", gi, n)), Return(gi)]),
        fn("bump", [], INT, [ExprStmt(Affix("++", rng.random() < 0.5, gi)), Return(B("*", gi, I(c)))]),
        fn("acc", [(FLOAT, "x")], FLOAT, [ExprStmt(Assign("=", gf, B("+", B("*", gf, F(0.5)), x))), Return(gf)]),
        fn("setv", [(F3, "v")], FLOAT, [ExprStmt(Assign("=", gv, V("v", F3))), Return(Swizzle(gv, "y"))]),
        fn("scalev", [(FLOAT, "x")], F3, [ExprStmt(Assign("*=", gv, x)), ExprStmt(Assign("=", Swizzle(gv, "zx"), Construct(F2, [x, gf]))), Return(gv)]),
        fn("vput", [(INT, "i"), (FLOAT, "x")], F3, [ExprStmt(Assign("=", Index(gv, B("%", B("*", i, i), I(3)), FLOAT), x)), Return(gv)]),
        fn("mrow", [(INT, "i"), (F3, "v")], M3, [ExprStmt(Assign("=", Index(gm, B("%", B("*", i, i), I(3)), F3), V("v", F3))), Return(gm)]),
        fn("melem", [(INT, "i"), (INT, "j"), (FLOAT, "x")], FLOAT,
           [ExprStmt(Assign("+=", Index(Index(gm, B("%", B("*", i, i), I(3)), F3), B("%", B("*", j, j), I(3)), FLOAT), x)),
            Return(Index(Index(gm, I(1), F3), I(1), FLOAT))]),
        fn("mscale", [(FLOAT, "x")], M3, [ExprStmt(Assign("=", gm, B("*", gm, x))), Return(gm)]),
        fn("aput", [(INT, "i"), (INT, "n")], INT, [ExprStmt(Assign("=", Index(ga, B("%", B("*", i, i), I(4)), INT), n)),
                                                 Return(B("+", Index(ga, I(0), INT), Index(ga, I(3), INT)))]),
        fn("asum", [], INT, [Decl(INT, "s", I(0)), For(Decl(INT, "k", I(0)), B("<", V("k", INT), I(4)), Affix("++", True, V("k", INT)),
                                                         Block([ExprStmt(Assign("+=", V("s", INT), Index(ga, V("k", INT), INT)))])), Return(V("s", INT))]),
        fn("sk", [(INT, "n")], INT, [ExprStmt(Assign("+=", Field(gs, "k", INT), n)), Return(Field(gs, "k", INT))]),
        fn("sw", [(FLOAT, "x")], FLOAT, [ExprStmt(Assign("=", Swizzle(Field(gs, "w", F2), "y"), x)), ExprStmt(Assign("=", Field(gs, "q", FLOAT), B("+", Field(gs, "q", FLOAT), x))),
                                         Return(B("+", Swizzle(Field(gs, "w", F2), "x"), Swizzle(Field(gs, "w", F2), "y")))]),
        fn("avput", [(INT, "i"), (FLOAT, "x")], F2, [ExprStmt(Assign("=", Swizzle(Index(gav, B("%", B("*", i, i), I(2)), F2), "y"), x)), Return(Index(gav, I(1), F2))]),
        fn("g2put", [(INT, "i"), (INT, "j"), (INT, "n")], INT,
           [ExprStmt(Assign("=", Index(Index(g2, B("%", B("*", i, i), I(2)), arr(INT, [3])), B("%", B("*", j, j), I(3)), INT), n)),
            Return(B("+", Index(Index(g2, I(0), arr(INT, [3])), I(2), INT), Index(Index(g2, I(1), arr(INT, [3])), I(0), INT)))]),
        fn("mix", [(INT, "n")], FLOAT, [If(B(">", gi, n), Block([ExprStmt(Assign("=", gf, B("+", gf, Swizzle(gv, "x"))))]),
                                           Block([ExprStmt(Assign("=", gi, B("+", gi, I(1))))])), Return(B("+", gf, gi))]),
        # default-initialised locals: mutated and returned; must be fresh on every invocation
        fn("loc_arr", [(INT, "i"), (INT, "n")], INT, [Decl(A4, "t"), ExprStmt(Assign("+=", Index(V("t", A4), B("%", B("*", i, i), I(4)), INT), n)),
                                                    Return(B("+", B("+", Index(V("t", A4), I(0), INT), Index(V("t", A4), I(1), INT)),
                                                             B("+", Index(V("t", A4), I(2), INT), Index(V("t", A4), I(3), INT))))]),
        fn("loc_vec", [(FLOAT, "x")], F3, [Decl(F3, "v"), ExprStmt(Assign("+=", Swizzle(V("v", F3), "y"), x)),
                                           ExprStmt(Assign("=", Index(V("v", F3), I(2), FLOAT), B("+", Index(V("v", F3), I(2), FLOAT), F(1.0)))), Return(V("v", F3))]),
        fn("loc_mat", [(FLOAT, "x")], FLOAT, [Decl(M3, "m"), ExprStmt(Assign("+=", Index(Index(V("m", M3), I(1), F3), I(1), FLOAT), x)),
                                              Return(B("+", Index(Index(V("m", M3), I(1), F3), I(1), FLOAT), Index(Index(V("m", M3), I(2), F3), I(1), FLOAT)))]),
        fn("loc_struct", [(INT, "n")], FLOAT, [Decl(ST, "s"), ExprStmt(Assign("+=", Field(V("s", ST), "k", INT), n)),
                                               ExprStmt(Assign("=", Swizzle(Field(V("s", ST), "w", F2), "x"), B("+", Swizzle(Field(V("s", ST), "w", F2), "x"), F(0.5)))),
                                               Return(B("+", Field(V("s", ST), "k", INT), Swizzle(Field(V("s", ST), "w", F2), "x")))]),
        fn("loc_2d", [(INT, "i"), (INT, "n")], INT, [Decl(A23, "t"), ExprStmt(Assign("+=", Index(Index(V("t", A23), B("%", B("*", i, i), I(2)), arr(INT, [3])), I(2), INT), n)),
                                                   Return(B("+", Index(Index(V("t", A23), I(0), arr(INT, [3])), I(2), INT), Index(Index(V("t", A23), I(1), arr(INT, [3])), I(2), INT)))]),
        fn("loc_scalar", [(INT, "n")], INT, [Decl(INT, "a"), Decl(FLOAT, "b"), ExprStmt(Assign("+=", V("a", INT), n)), Return(B("+", V("a", INT), I(0)))]),
        fn("copy_out", [], F3, [Decl(F3, "v", gv), ExprStmt(Assign("=", Swizzle(V("v", F3), "x"), F(99.0))), Return(V("v", F3))]),
    ]
    return fs


def helper_templates(rng):
    """(helpers, exported functions): non-exported helpers that index-/swizzle-write their own vector or matrix parameter
    and are fed with *globals*; call chains of depth 2-3 in which only the innermost helper touches a global"""
    from ..lang import Call
    gi, gf, gv, gm = V("gi", INT), V("gf", FLOAT), V("gv", F3), V("gm", M3)
    v, i, x, n = V("v", F3), V("i", INT), V("x", FLOAT), V("n", INT)
    idx = B("%", B("*", i, i), I(3))
    h_put = Func("h_put", [(F3, "v"), (INT, "i"), (FLOAT, "x")], F3, Block([ExprStmt(Assign("=", Index(v, idx, FLOAT), x)), Return(v)]), False)
    h_swz = Func("h_swz", [(F3, "v"), (FLOAT, "x")], FLOAT, Block([ExprStmt(Assign("=", Swizzle(v, "zx"), Construct(F2, [x, x]))),
                                                                  Return(B("+", Swizzle(v, "x"), Swizzle(v, "z")))]), False)
    h_row = Func("h_row", [(M3, "m"), (INT, "i"), (FLOAT, "x")], FLOAT,
                 Block([ExprStmt(Assign("=", Index(Index(V("m", M3), idx, F3), I(1), FLOAT), x)), Return(Index(Index(V("m", M3), I(1), F3), I(1), FLOAT))]), False)
    h_scl = Func("h_scl", [(F3, "v"), (FLOAT, "x")], F3, Block([ExprStmt(Assign("*=", v, x)), Return(v)]), False)
    inner = Func("inner", [(FLOAT, "x")], FLOAT, Block([Return(B("*", x, gi))]), False)
    mid = Func("mid", [(FLOAT, "x")], FLOAT, Block([Return(B("+", Call("inner", [x], FLOAT, inner), F(1.0)))]), False)
    outer = Func("outer", [(FLOAT, "x")], FLOAT, Block([Return(B("*", Call("mid", [x], FLOAT, mid), F(2.0)))]), False)
    bumpg = Func("bumpg", [(INT, "n")], INT, Block([ExprStmt(Assign("=", gi, B("+", gi, n))), Return(gi)]), False)
    viab = Func("viab", [(INT, "n")], INT, Block([Return(B("+", Call("bumpg", [n], INT, bumpg), I(100)))]), False)
    # helpers that modify their own scalar parameters, called with literal arguments only (the call site runs again on the
    # next invocation and on other VMs of the program: it must start from the literals every time)
    dec = Func("dec", [(INT, "n")], INT, Block([ExprStmt(Assign("=", n, B("-", n, I(1)))), ExprStmt(Assign("=", gi, B("+", gi, n))), Return(n)]), False)
    cnt = Func("cnt", [(INT, "n"), (FLOAT, "x")], FLOAT, Block([ExprStmt(Assign("+=", n, I(2))), ExprStmt(Assign("=", x, B("*", x, F(0.5)))),
                                                              Return(B("+", B("*", n, F(10.0)), x))]), False)
    # recursion: a local and a temporary set before the recursive call and read after it (every activation has its own)
    rs = Func("rs", [(INT, "n")], INT, None, False)
    rs.body = Block([If(B("<=", n, I(0)), Block([Return(I(0))])), Decl(INT, "k", B("*", n, I(2))), Decl(INT, "r", Call("rs", [B("-", n, I(1))], INT, rs)),
                     ExprStmt(Assign("=", gi, B("+", gi, V("k", INT)))), Return(B("+", B("+", V("r", INT), V("k", INT)), B("*", n, I(100))))])
    F4 = vec(FLOAT, 4)
    helpers = [h_put, h_swz, h_row, h_scl, inner, mid, outer, bumpg, viab, dec, cnt, rs]
    exported = [
        fn("recur", [(INT, "n")], INT, [Return(Call("rs", [B("%", B("*", n, n), I(5))], INT, rs))]),
        # a wider vector built from a vector variable plus scalars: the variable it starts from stays what it was
        fn("widen_g", [(FLOAT, "x")], FLOAT, [Decl(F4, "w", Construct(F4, [gv, x])), Return(B("+", Swizzle(V("w", F4), "x"), Swizzle(V("w", F4), "w")))]),
        fn("widen_p", [(F3, "v"), (FLOAT, "x")], F4, [Return(Construct(F4, [v, x]))]),
        fn("widen_l", [(FLOAT, "x")], F3, [Decl(F2, "l", Construct(F2, [x, gf])), Decl(F3, "w", Construct(F3, [V("l", F2), x])),
                                           Return(B("+", V("w", F3), Construct(F3, [V("l", F2), F(1.0)])))]),
        fn("advance", [], INT, [Return(B("+", B("*", Call("dec", [I(3)], INT, dec), I(1000)), gi))]),
        fn("lit_call", [(INT, "n")], FLOAT, [Return(B("+", B("+", Call("cnt", [I(3), F(8.0)], FLOAT, cnt), Call("cnt", [I(3), F(8.0)], FLOAT, cnt)), n))]),
        # store to a global, a call that changes the same global, the global read again — all in one straight line
        fn("seq_store_call_load", [(INT, "n")], INT, [ExprStmt(Assign("=", gi, n)), ExprStmt(Call("bumpg", [I(1)], INT, bumpg)), ExprStmt(Assign("=", gf, gi)),
                                                     Return(B("*", gi, I(10)))]),
        fn("seq_store_chain_load", [(INT, "n")], FLOAT, [ExprStmt(Assign("=", gi, n)), Decl(INT, "t", Call("viab", [n], INT, viab)), ExprStmt(Assign("=", gf, B("+", gi, V("t", INT)))),
                                                        Return(gf)]),
        fn("put_via", [(INT, "i"), (FLOAT, "x")], FLOAT, [Decl(F3, "r", Call("h_put", [gv, i, x], F3, h_put)),
                                                         Return(B("+", B("*", Index(V("r", F3), I(0), FLOAT), F(100.0)), Index(gv, I(0), FLOAT)))]),
        fn("swz_via", [(FLOAT, "x")], FLOAT, [Return(B("+", Call("h_swz", [gv, x], FLOAT, h_swz), Swizzle(gv, "x")))]),
        fn("row_via", [(INT, "i"), (FLOAT, "x")], FLOAT, [Return(B("+", Call("h_row", [gm, i, x], FLOAT, h_row), Index(Index(gm, I(1), F3), I(1), FLOAT)))]),
        fn("scl_via", [(FLOAT, "x")], F3, [Decl(F3, "r", Call("h_scl", [gv, x], F3, h_scl)), Return(B("+", V("r", F3), gv))]),
        fn("own_put", [(F3, "v"), (INT, "i"), (FLOAT, "x")], F3, [ExprStmt(Assign("=", Index(v, idx, FLOAT), x)), Return(v)]),
        fn("apply", [(FLOAT, "x")], FLOAT, [Return(Call("outer", [x], FLOAT, outer))]),
        fn("apply_mid", [(FLOAT, "x")], FLOAT, [Return(B("+", Call("mid", [x], FLOAT, mid), Call("mid", [x], FLOAT, mid)))]),
        fn("bump_via", [(INT, "n")], INT, [Return(B("+", Call("viab", [n], INT, viab), Call("viab", [n], INT, viab)))]),
    ]
    return helpers, exported


def gen_module(rng):
    fs = templates(rng)
    k = rng.randint(5, len(fs))
    chosen = rng.sample(fs, k)
    helpers, exported = helper_templates(rng)
    extra = rng.sample(exported, rng.randint(2, len(exported)))
    return Module(structs=list(STRUCTS), globals=list(GLOBALS), funcs=helpers + chosen + extra)


def gen_history(rng, module, nvms, length):
    """[(vm index, op, name, payload)] — starts by setting every global on every VM"""
    ops = []
    for v in range(nvms):
        for t, n in module.globals:
            ops.append((v, "set", n, gcore.rand_value(rng, t, module)))
    fns = [f for f in module.funcs if f.exported]
    last_call = {}
    for _ in range(length):
        v = rng.randrange(nvms)
        r = rng.random()
        if r < 0.70:
            f = rng.choice(fns)
            if (v, f.name) in last_call and rng.random() < 0.35:
                args = last_call[(v, f.name)]          # the very same argument values again
            else:
                args = {n: gcore.rand_value(rng, t, module) for t, n in f.params}
            last_call[(v, f.name)] = args
            ops.append((v, "invoke", f.name, args))
        elif r < 0.76 and module.globals:
            # the host hands the VM one object both as a global and as an argument (by-value semantics must hold)
            cands = [(t, n) for t, n in module.globals if any(pt == t for ff in fns for pt, _ in ff.params)]
            if cands:
                t, n = rng.choice(cands)
                f = rng.choice([ff for ff in fns if any(pt == t for pt, _ in ff.params)])
                pn = [pn_ for pt, pn_ in f.params if pt == t][0]
                args = {n2: gcore.rand_value(rng, t2, module) for t2, n2 in f.params}
                ops.append((v, "invoke_shared", f.name, {"args": args, "param": pn, "global": n}))
            continue
        elif r < 0.85:
            t, n = rng.choice(module.globals)
            ops.append((v, "get", n, None))
        else:
            t, n = rng.choice(module.globals)
            ops.append((v, "set", n, gcore.rand_value(rng, t, module)))
    for v in range(nvms):
        for t, n in module.globals:
            ops.append((v, "get", n, None))
    return ops
