"""Generator 1: the scalar core language (int/float scalars, local and global arrays and
structs of scalars, all 13 binary operators, assignments incl. compound forms, ++/--,
if/else, the three loops with break/continue, early return, calls into helper functions).

Programs terminate by construction (every loop has a bounded counter that the body cannot
write) and respect the domain guards of DESIGN §3.1:
  * operands of && and || are pure and total;
  * a variable written by a nested side effect (++/--, nested assignment, a callee that
    writes a global) does not otherwise occur in the same full expression;
  * no narrowing (float -> int) assignment, initialisation or return.
"""
import random

from ..lang import (INT, FLOAT, VOID, IntLit, FloatLit, Var, Index, Field, Bin, Assign, Affix, Call,
                    Decl, ExprStmt, Block, If, For, While, Do, Break, Continue, Return, Func, Module,
                    arr, struct_t, is_arr, is_struct, is_scalar, promote, ARITH, CMP, LOGIC)

INT_LITS = [0, 1, 2, 3, 4, 5, 7, 8, 10, 12, 16, 31, 100, -1, -2, -3, -7]
FLOAT_LITS = [0.0, 0.5, 1.0, 1.5, 2.0, 2.5, 3.0, 0.25, 10.0, 0.125, 7.75]
NAME_POOL = ["a", "b", "c", "d", "e", "k", "m", "n", "p", "q", "s", "t", "u", "v", "w", "x", "y", "z",
             "acc", "tmp", "cnt", "val", "lo", "hi"]


def int_literal(rng, v=None):
    if v is None:
        v = rng.choice(INT_LITS)
    r = rng.random()
    if v >= 0 and r < 0.08:
        return IntLit(v, "0x%X" % v if rng.random() < 0.5 else "0x%x" % v)
    if v > 0 and r < 0.14:
        return IntLit(v, "0%o" % v)
    return IntLit(v)


def float_literal(rng, v=None):
    if v is None:
        v = rng.choice(FLOAT_LITS)
    r = rng.random()
    sp = None
    if v >= 0:
        if v == int(v) and r < 0.10:
            sp = "%d." % int(v)
        elif 0 < v < 1 and r < 0.2:
            sp = repr(v)[1:]  # .5
        elif v == int(v) and v >= 1 and r < 0.2:
            sp = "%de0" % int(v)
        elif r < 0.3:
            sp = repr(float(v)) + "f"
    return FloatLit(v, sp)


class Cfg:
    def __init__(self, **kw):
        self.max_depth = 4
        self.max_stmts = 14
        self.max_block = 5
        self.max_nest = 3
        self.n_helpers = 2
        self.n_exports = 1
        self.arrays = True
        self.structs = True
        self.globals = True
        self.calls = True
        self.loops = True
        self.side_effect_values = True
        self.floats = True
        self.straight_line = False   # no control flow at all (C06 subset)
        self.void_exports = True
        for k, v in kw.items():
            if not hasattr(self, k):
                raise AttributeError(k)
            setattr(self, k, v)


class _FX:
    """bookkeeping for one full expression (side-effect discipline)"""
    __slots__ = ("reads", "locked")

    def __init__(self):
        self.reads = set()
        self.locked = set()


class _Scope:
    def __init__(self, parent=None):
        self.vars = {}   # name -> type
        self.parent = parent

    def visible(self):
        s, out = self, {}
        while s is not None:
            for k, v in s.vars.items():
                out.setdefault(k, v)
            s = s.parent
        return out

    def has(self, name):
        s = self
        while s is not None:
            if name in s.vars:
                return True
            s = s.parent
        return False


class CoreGen:
    def __init__(self, rng, cfg=None):
        self.rng = rng
        self.cfg = cfg or Cfg()
        self.module = Module()
        self.summ = {}          # Func -> (reads, writes) of globals, transitive
        self.gscope = _Scope()
        self.nonneg = set()     # names known to be >= 0 at every read (loop counters)
        self.readonly = set()   # names the body may not write
        self.fn_writes = set()
        self.fn_reads = set()
        self.fn_calls = []
        self.cur_fn_names = set()
        self.loop_depth = 0
        self.stmt_budget = 0
        self.ret_ty = VOID
        self.tmp_counter = 0

    # -------------------------------------------------------------- top level
    def gen_module(self):
        rng, cfg, m = self.rng, self.cfg, self.module
        if cfg.structs and rng.random() < 0.6:
            nf = rng.randint(1, 3)
            fields = []
            for i in range(nf):
                fields.append((rng.choice([INT, FLOAT]) if cfg.floats else INT, "m%d" % i))
            m.structs.append(("S0", fields))
        if cfg.globals:
            for i in range(rng.randint(0, 3)):
                t = self.rand_storage_type(allow_struct=True)
                n = "g%d" % i
                m.globals.append((t, n))
                self.gscope.vars[n] = t
        for i in range(rng.randint(0, cfg.n_helpers) if cfg.calls else 0):
            self.gen_function("h%d" % i, exported=False)
        for i in range(max(1, cfg.n_exports)):
            self.gen_function("f%d" % i, exported=True)
        return m

    def rand_scalar(self):
        if self.cfg.floats and self.rng.random() < 0.4:
            return FLOAT
        return INT

    def rand_storage_type(self, allow_struct=True):
        r = self.rng.random()
        if self.cfg.arrays and r < 0.25:
            return arr(self.rand_scalar(), [self.rng.randint(1, 5)])
        if self.cfg.structs and allow_struct and self.module.structs and r < 0.4:
            return struct_t("S0")
        return self.rand_scalar()

    def fresh(self, scope):
        vis = scope.visible()
        for _ in range(20):
            n = self.rng.choice(NAME_POOL)
            if n not in vis and n not in self.gscope.vars:
                return n
        self.tmp_counter += 1
        return "v%d" % self.tmp_counter

    def gen_function(self, name, exported):
        rng, cfg = self.rng, self.cfg
        scope = _Scope(self.gscope)
        params = []
        for i in range(rng.randint(0, 4) if exported else rng.randint(0, 3)):
            t = self.rand_scalar()
            n = self.fresh(scope)
            scope.vars[n] = t
            params.append((t, n))
        r = rng.random()
        if r < (0.12 if (exported and cfg.void_exports and cfg.globals and self.module.globals) else 0.0):
            ret = VOID
        else:
            ret = self.rand_scalar()
        self.ret_ty = ret
        self.nonneg, self.readonly = set(), set()
        self.fn_reads, self.fn_writes, self.fn_calls = set(), set(), []
        self.loop_depth = 0
        self.stmt_budget = rng.randint(2, cfg.max_stmts) if not cfg.straight_line else rng.randint(1, 6)
        body_scope = _Scope(scope)
        stmts = self.gen_stmts(body_scope, nest=0, top=True)
        if ret != VOID:
            stmts.append(Return(self.full_expr(ret, body_scope)))
        elif rng.random() < 0.2:
            stmts.append(Return(None))
        fn = Func(name, params, ret, Block(stmts), exported)
        reads, writes = set(self.fn_reads), set(self.fn_writes)
        for c in self.fn_calls:
            cr, cw = self.summ[c]
            reads |= cr
            writes |= cw
        self.summ[fn] = (reads, writes)
        self.module.funcs.append(fn)
        return fn

    # ------------------------------------------------------------- statements
    def gen_stmts(self, scope, nest, top=False):
        out = []
        n = self.rng.randint(1, self.cfg.max_block)
        for _ in range(n):
            if self.stmt_budget <= 0:
                break
            self.stmt_budget -= 1
            s = self.gen_stmt(scope, nest)
            if s is None:
                continue
            if isinstance(s, list):
                out.extend(s)
            else:
                out.append(s)
            if isinstance(out[-1], (Break, Continue, Return)):
                break
        return out

    def gen_stmt(self, scope, nest):
        rng, cfg = self.rng, self.cfg
        r = rng.random()
        ctl = (not cfg.straight_line) and nest < cfg.max_nest
        if r < 0.22:
            return self.gen_decl(scope)
        if r < 0.52:
            return self.gen_assign_stmt(scope)
        if r < 0.58:
            return self.gen_affix_stmt(scope)
        if ctl and r < 0.72:
            return self.gen_if(scope, nest)
        if ctl and cfg.loops and r < 0.88:
            return self.gen_loop(scope, nest)
        if (not cfg.straight_line) and self.loop_depth > 0 and r < 0.93:
            # guarded break / continue
            c = self.full_expr(INT, scope, want_cmp=True)
            return If(c, Block([Break() if rng.random() < 0.5 else Continue()]))
        if (not cfg.straight_line) and r < 0.95 and nest > 0:
            c = self.full_expr(INT, scope, want_cmp=True)
            if self.ret_ty == VOID:
                return If(c, Block([Return(None)]))
            return If(c, Block([Return(self.full_expr(self.ret_ty, scope))]))
        if cfg.calls and r < 0.97:
            c = self.gen_call_expr(None, scope, _FX(), 0)
            if c is not None:
                return ExprStmt(c)
        if (not cfg.straight_line) and r < 0.985:
            return Block(self.gen_stmts(_Scope(scope), nest + 1))
        return self.gen_assign_stmt(scope)

    def gen_decl(self, scope):
        rng = self.rng
        t = self.rand_storage_type()
        n = self.fresh(scope)
        init = None
        if is_scalar(t) and rng.random() < 0.7:
            src = t if (t == INT or rng.random() < 0.7) else INT   # float x = <int expr> is a widening init
            init = self.full_expr(src, scope)
        scope.vars[n] = t
        return Decl(t, n, init)

    def lvalues(self, scope, ty=None, fx=None):
        """candidate assignable scalar lvalues visible here: [(expr, rootname)]"""
        out = []
        for name, t in scope.visible().items():
            if name in self.readonly:
                continue
            if fx is not None and name in fx.locked:
                continue
            if is_scalar(t):
                if ty is None or t == ty:
                    out.append((Var(name, t), name))
            elif is_arr(t) and is_scalar(t[1]) and len(t[2]) == 1:
                if ty is None or t[1] == ty:
                    out.append(("arr", name, t))
            elif is_struct(t):
                for ft, fn in self.module.struct_fields(t[1]):
                    if is_scalar(ft) and (ty is None or ft == ty):
                        out.append((Field(Var(name, t), fn, ft), name))
        return out

    def realize_lvalue(self, cand, scope, fx):
        if cand[0] == "arr":
            _, name, t = cand
            idx = self.index_expr(t[2][0], scope, fx)
            return Index(Var(name, t), idx, t[1]), name
        return cand

    def index_expr(self, size, scope, fx):
        """an int expression guaranteed to lie in [0, size)"""
        rng = self.rng
        r = rng.random()
        vis = scope.visible()
        cands = [n for n in self.nonneg if vis.get(n) == INT and n not in fx.locked]
        if cands and r < 0.5:
            n = rng.choice(cands)
            fx.reads.add(n)
            return Bin("%", Var(n, INT), int_literal(rng, size), INT)
        if r < 0.65:
            ints = [n for n, t in scope.visible().items() if t == INT and n not in fx.locked]
            if ints:
                n = rng.choice(ints)
                fx.reads.add(n)
                v = Var(n, INT)
                return Bin("%", Bin("*", v, v, INT), int_literal(rng, size), INT)
        return int_literal(rng, rng.randrange(size))

    def note_write(self, root, scope):
        if root in self.gscope.vars and not self._is_local(root, scope):
            self.fn_writes.add(root)

    def note_read(self, root, scope):
        if root in self.gscope.vars and not self._is_local(root, scope):
            self.fn_reads.add(root)

    def _is_local(self, name, scope):
        s = scope
        while s is not None and s is not self.gscope:
            if name in s.vars:
                return True
            s = s.parent
        return False

    def gen_assign_stmt(self, scope):
        rng = self.rng
        fx = _FX()
        cands = self.lvalues(scope)
        if not cands:
            return self.gen_decl(scope)
        cand = rng.choice(cands)
        tty = cand[2][1] if cand[0] == "arr" else cand[0].ty
        r = rng.random()
        if r < 0.55:
            op = "="
        else:
            op = rng.choice(["+=", "-=", "*=", "/="])
        # value: never narrowing.  int target <- int; float target <- int or float
        vty = tty if (tty == INT or rng.random() < 0.75) else INT
        if op == "/=":
            value = self.nonzero_expr(vty, scope, fx)
        else:
            value = self.expr(vty, scope, fx, 0)
        # the target may not be a variable locked by a nested side effect in the value
        root = cand[1]
        if root in fx.locked:
            return ExprStmt(value) if not isinstance(value, (IntLit, FloatLit, Var)) else None
        target, root = self.realize_lvalue(cand, scope, fx)
        if op != "=":
            self.note_read(root, scope)
        self.note_write(root, scope)
        return ExprStmt(Assign(op, target, value))

    def gen_affix_stmt(self, scope):
        rng = self.rng
        cands = [(n, t) for n, t in scope.visible().items() if is_scalar(t) and n not in self.readonly]
        if not cands:
            return None
        n, t = rng.choice(cands)
        self.note_read(n, scope)
        self.note_write(n, scope)
        return ExprStmt(Affix(rng.choice(["++", "--"]), rng.random() < 0.5, Var(n, t)))

    def gen_if(self, scope, nest):
        rng = self.rng
        c = self.full_expr(rng.choice([INT, INT, FLOAT]) if self.cfg.floats else INT, scope, want_cmp=rng.random() < 0.8)
        then = Block(self.gen_stmts(_Scope(scope), nest + 1))
        els = None
        r = rng.random()
        if r < 0.35:
            els = Block(self.gen_stmts(_Scope(scope), nest + 1))
        elif r < 0.5 and nest + 1 < self.cfg.max_nest:
            els = self.gen_if(scope, nest + 1)
        return If(c, then, els)

    def gen_loop(self, scope, nest):
        rng = self.rng
        kind = rng.choice(["for", "while", "do"])
        bound = rng.randint(1, 6)
        pre = []
        if kind == "for":
            ls = _Scope(scope)
            i = self.fresh(ls)
            ls.vars[i] = INT
            self.readonly.add(i)
            self.nonneg.add(i)
            r = rng.random()
            nxt = Affix("++", r < 0.5, Var(i, INT)) if r < 0.8 else Assign("+=", Var(i, INT), IntLit(rng.choice([1, 2])))
            cond = self.loop_cond(Var(i, INT), bound, ls)
            self.loop_depth += 1
            body = Block(self.gen_stmts(_Scope(ls), nest + 1))
            self.loop_depth -= 1
            self.readonly.discard(i)
            self.nonneg.discard(i)
            # every part of the header is optional: now and then the test or the step is written in the body instead
            hv = rng.random()
            if hv < 0.07:
                body = Block([If(Bin("==", cond, IntLit(0), INT), Block([Break()]))] + list(body.stmts))
                cond = None
            elif hv < 0.12:
                body = Block([ExprStmt(nxt)] + list(body.stmts))
                nxt = None
            return For(Decl(INT, i, int_literal(rng, 0)), cond, nxt, body)
        c = self.fresh(scope)
        scope.vars[c] = INT
        pre.append(Decl(INT, c, int_literal(rng, 0) if rng.random() < 0.7 else None))
        self.readonly.add(c)
        self.nonneg.add(c)
        inc = ExprStmt(rng.choice([Assign("=", Var(c, INT), Bin("+", Var(c, INT), IntLit(1), INT)),
                                   Assign("+=", Var(c, INT), IntLit(1)),
                                   Affix("++", True, Var(c, INT)), Affix("++", False, Var(c, INT))]))
        cond = self.loop_cond(Var(c, INT), bound, scope)
        self.loop_depth += 1
        body = [inc] + self.gen_stmts(_Scope(scope), nest + 1)
        self.loop_depth -= 1
        # the counter stays read-only for the rest of the function (it remains visible)
        if kind == "while":
            return pre + [While(cond, Block(body))]
        return pre + [Do(Block(body), cond)]

    def loop_cond(self, counter, bound, scope):
        rng = self.rng
        base = Bin(rng.choice(["<", "<="]) if rng.random() < 0.8 else "!=", counter, IntLit(bound), INT)
        if base.op == "!=":
            # != terminates only with unit steps from 0; keep it for the canonical shapes
            base = Bin("<", counter, IntLit(bound), INT)
        if rng.random() < 0.3:
            fx = _FX()
            extra = self.expr(INT, scope, fx, 2, pure=True, want_cmp=True)
            return Bin("&&", base, extra, INT)
        return base

    # ------------------------------------------------------------ expressions
    def full_expr(self, ty, scope, want_cmp=False):
        return self.expr(ty, scope, _FX(), 0, want_cmp=want_cmp)

    def nonzero_expr(self, ty, scope, fx):
        rng = self.rng
        r = rng.random()
        if ty == INT:
            if r < 0.6:
                return int_literal(rng, rng.choice([1, 2, 3, 4, 5, 7, -1, -2, -3, 10]))
            if r < 0.8:
                # x * x + 1 is positive
                ints = [n for n, t in scope.visible().items() if t == INT and n not in fx.locked]
                if ints:
                    n = rng.choice(ints)
                    fx.reads.add(n)
                    self.note_read(n, scope)
                    v = Var(n, INT)
                    return Bin("+", Bin("*", v, v, INT), IntLit(1), INT)
            return self.expr(INT, scope, fx, self.cfg.max_depth - 1)
        if r < 0.7:
            return float_literal(rng, rng.choice([0.5, 1.0, 2.0, 4.0, 0.25, 2.5, 8.0]))
        return self.expr(ty, scope, fx, self.cfg.max_depth - 1)

    def var_of(self, ty, scope, fx, pure):
        """a readable scalar access of exactly type ty (or None)"""
        rng = self.rng
        cands = self.lvalues_for_read(scope, ty, fx)
        if not cands:
            return None
        cand = rng.choice(cands)
        if cand[0] == "arr":
            if pure:
                simple = [c for c in cands if c[0] != "arr"]
                if not simple:
                    return None
                cand = rng.choice(simple)
            else:
                _, name, t = cand
                idx = self.index_expr(t[2][0], scope, fx)
                fx.reads.add(name)
                self.note_read(name, scope)
                return Index(Var(name, t), idx, t[1])
        e, root = cand
        fx.reads.add(root)
        self.note_read(root, scope)
        return e

    def lvalues_for_read(self, scope, ty, fx):
        out = []
        for name, t in scope.visible().items():
            if name in fx.locked:
                continue
            if is_scalar(t):
                if t == ty:
                    out.append((Var(name, t), name))
            elif is_arr(t) and is_scalar(t[1]) and len(t[2]) == 1:
                if t[1] == ty:
                    out.append(("arr", name, t))
            elif is_struct(t):
                for ft, fn in self.module.struct_fields(t[1]):
                    if ft == ty:
                        out.append((Field(Var(name, t), fn, ft), name))
        return out

    def leaf(self, ty, scope, fx, pure):
        rng = self.rng
        if rng.random() < 0.62:
            v = self.var_of(ty, scope, fx, pure)
            if v is not None:
                return v
        return int_literal(rng) if ty == INT else float_literal(rng)

    def expr(self, ty, scope, fx, depth, pure=False, want_cmp=False):
        rng, cfg = self.rng, self.cfg
        if depth >= cfg.max_depth or (depth > 0 and rng.random() < 0.3 and not want_cmp):
            return self.leaf(ty, scope, fx, pure)
        r = rng.random()
        if ty == INT:
            if want_cmp or r < 0.22:
                # comparison of two scalars (int result)
                ot = rng.choice([INT, INT, FLOAT]) if cfg.floats else INT
                lt = ot
                rt = ot if rng.random() < 0.7 or not cfg.floats else rng.choice([INT, FLOAT])
                l = self.expr(lt, scope, fx, depth + 1, pure)
                rr = self.expr(rt, scope, fx, depth + 1, pure)
                return Bin(rng.choice(CMP), l, rr, INT)
            if r < 0.34:
                l = self.expr(INT, scope, fx, depth + 1, True)
                rr = self.expr(INT, scope, fx, depth + 1, True)
                return Bin(rng.choice(LOGIC), l, rr, INT)
            if r < 0.80:
                op = rng.choice(["+", "-", "*", "+", "-", "*", "/", "%"])
                if pure and op in ("/", "%"):
                    op = "+"
                l = self.expr(INT, scope, fx, depth + 1, pure)
                if op == "/":
                    rr = self.nonzero_expr(INT, scope, fx)
                elif op == "%":
                    # dividend must be >= 0 and divisor > 0: square the dividend, literal divisor
                    if not isinstance(l, (IntLit,)) or l.value < 0:
                        l = Bin("*", l, l, INT) if isinstance(l, Var) else self._nonneg(l, scope, fx)
                    rr = int_literal(rng, rng.choice([1, 2, 3, 5, 7, 10]))
                else:
                    rr = self.expr(INT, scope, fx, depth + 1, pure)
                return Bin(op, l, rr, INT)
            if not pure and cfg.calls and r < 0.88:
                c = self.gen_call_expr(INT, scope, fx, depth)
                if c is not None:
                    return c
            if not pure and cfg.side_effect_values and r < 0.94:
                e = self.side_effect_value(INT, scope, fx, depth)
                if e is not None:
                    return e
            return self.leaf(INT, scope, fx, pure)
        # FLOAT
        if r < 0.10:
            l = self.expr(FLOAT, scope, fx, depth + 1, True)
            rr = self.expr(rng.choice([INT, FLOAT]), scope, fx, depth + 1, True)
            if rng.random() < 0.5:
                l, rr = rr, l
            return Bin(rng.choice(LOGIC), l, rr, FLOAT)
        if r < 0.78:
            op = rng.choice(["+", "-", "*", "/", "+", "-", "*"])
            if pure and op == "/":
                op = "*"
            lt, rt = rng.choice([(FLOAT, FLOAT), (FLOAT, FLOAT), (INT, FLOAT), (FLOAT, INT)])
            l = self.expr(lt, scope, fx, depth + 1, pure)
            rr = self.nonzero_expr(rt, scope, fx) if op == "/" else self.expr(rt, scope, fx, depth + 1, pure)
            return Bin(op, l, rr, FLOAT)
        if not pure and cfg.calls and r < 0.86:
            c = self.gen_call_expr(FLOAT, scope, fx, depth)
            if c is not None:
                return c
        if not pure and cfg.side_effect_values and r < 0.90:
            e = self.side_effect_value(FLOAT, scope, fx, depth)
            if e is not None:
                return e
        return self.leaf(FLOAT, scope, fx, pure)

    def _nonneg(self, e, scope, fx):
        # e * e is non-negative but evaluates e twice: only for pure e.  Otherwise use a literal.
        return int_literal(self.rng, self.rng.choice([0, 1, 5, 9, 12, 100]))

    def side_effect_value(self, ty, scope, fx, depth):
        """x++ / --x / (x = e) used as a value; x must not occur elsewhere in the full expression"""
        rng = self.rng
        cands = [n for n, t in scope.visible().items()
                 if t == ty and n not in self.readonly and n not in fx.reads and n not in fx.locked]
        if not cands:
            return None
        n = rng.choice(cands)
        fx.locked.add(n)
        self.note_read(n, scope)
        self.note_write(n, scope)
        if rng.random() < 0.75:
            return Affix(rng.choice(["++", "--"]), rng.random() < 0.5, Var(n, ty))
        # nested assignment is only printable where an `expression` is expected without operators
        # around it (the grammar has no parenthesised assignment); the callers that can host it
        # are call arguments, index expressions, return values and right-hand sides.
        return None

    def gen_call_expr(self, ty, scope, fx, depth):
        rng = self.rng
        cands = [f for f in self.module.funcs if not f.exported and (ty is None or f.ret == ty)
                 and (ty is not None or True)]
        if ty is None:
            cands = [f for f in self.module.funcs if not f.exported]
        ok = []
        for f in cands:
            fr, fw = self.summ[f]
            if fw & (fx.reads | fx.locked):
                continue
            if fr & fx.locked:
                continue
            ok.append(f)
        if not ok:
            return None
        f = rng.choice(ok)
        fr, fw = self.summ[f]
        args = []
        for pt, _ in f.params:
            at = pt if (pt == INT or rng.random() < 0.7) else INT  # int -> float widening argument
            args.append(self.expr(at, scope, fx, max(depth + 1, self.cfg.max_depth - 1)))
        # re-check: arguments may have read what f writes
        if fw & (fx.reads | fx.locked) or fr & fx.locked:
            return None
        fx.locked |= fw
        fx.reads |= fr
        self.fn_calls.append(f)
        return Call(f.name, args, f.ret, f)


# --------------------------------------------------------------------- inputs
INT_INPUTS = [0, 1, -1, 2, 3, 5, 7, 10, -3, 4, 6, 9, 13, 100, -8]
FLOAT_INPUTS = [0.0, 1.0, -1.5, 2.5, 0.5, 3.0, 10.25, -2.0, 4.0, 7.5]


def rand_value(rng, t, module):
    if t == INT:
        return rng.choice(INT_INPUTS) if rng.random() < 0.85 else rng.randint(-50, 50)
    if t == FLOAT:
        return rng.choice(FLOAT_INPUTS) if rng.random() < 0.85 else float(rng.randint(-200, 200)) / 8.0
    if t == "uint":
        return rng.choice([0, 1, 2, 3, 5, 7, 10, 100])
    if isinstance(t, tuple):
        if t[0] == "vec":
            return [rand_value(rng, t[1], module) for _ in range(t[2])]
        if t[0] == "mat":
            return [[rand_value(rng, t[1], module) for _ in range(t[3])] for _ in range(t[2])]
        if t[0] == "arr":
            def build(dims):
                if not dims:
                    return rand_value(rng, t[1], module)
                return [build(dims[1:]) for _ in range(dims[0])]
            return build(t[2])
        if t[0] == "struct":
            return {n: rand_value(rng, ft, module) for ft, n in module.struct_fields(t[1])}
    raise ValueError(t)


def gen_inputs(rng, module, fn, k=4):
    """k input vectors: (args by name, globals by name)"""
    out = []
    for _ in range(k):
        args = {n: rand_value(rng, t, module) for t, n in fn.params}
        gl = {n: rand_value(rng, t, module) for t, n in module.globals}
        out.append((args, gl))
    return out


def gen_program(seed, cfg=None):
    rng = random.Random(seed)
    g = CoreGen(rng, cfg)
    return g.gen_module()
