"""Generator 8: layouts.  One token sequence printed under random whitespace: any amount of
spaces, tabs and line breaks between tokens, blank lines, leading text on a line.  Tokens are
never split or merged: a separator is empty only next to pure punctuation, and an operator is
always followed and preceded by at least one whitespace character (the lexer glues a sign to a
following digit, so `a -1` is a *different token sequence*, not a layout of `a - 1`)."""

_PUNCT = {";", ",", "(", ")", "[", "]", "{", "}"}
_SEPS = [" ", " ", " ", "  ", "\t", "\n", "\n", "\n\n", " \n  ", "\t\t", "\n\t", "   \n\n \t"]


def _gluable(a, b):
    if a in _PUNCT and b in _PUNCT:
        return True
    if a in _PUNCT and (b[0].isalpha() or b[0] == "_"):
        return True
    if b in _PUNCT and (a[-1].isalnum() or a[-1] == "_"):
        # `1.` then `(`... a float literal ending in '.' followed by punctuation is still fine
        return True
    return False


def layout(tokens, rng, dense=0.25, allow_dot_glue=True):
    parts = []
    prev = None
    for t in tokens:
        if prev is not None:
            if t == "." or prev == ".":
                # member access: identifiers around '.', both glued and spaced forms are legal
                # tokens; a '.' next to a digit would change the literal, never generated here
                sep = "" if (allow_dot_glue and rng.random() < 0.7) else rng.choice([" ", "\n", "\t"])
            elif _gluable(prev, t) and rng.random() < dense:
                sep = ""
            else:
                sep = rng.choice(_SEPS)
            parts.append(sep)
        parts.append(t)
        prev = t
    lead = rng.choice(["", "", "\n", "\n\n", "  ", "\t", " \n\t "])
    tail = rng.choice(["", "\n", "\n\n", "  \n"])
    return lead + "".join(parts) + tail


def one_line(tokens):
    return " ".join(tokens)
