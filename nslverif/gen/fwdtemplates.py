"""Template family for C02: a store -> load pair in front of every kind of consumer, for each variable
scope (local, parameter, global) and type, plus casts of constants in each consumer.  These are the shapes the
load-after-store and constant-cast optimisations rewrite."""
from ..lang import (INT, FLOAT, VOID, IntLit, FloatLit, Var, Index, Field, Swizzle, Bin, Assign, Affix, Call, Construct, Decl,
                    ExprStmt, Block, If, For, While, Do, Return, Func, Module, vec, arr, struct_t, mk_bin)

F2 = vec(FLOAT, 2)


def V(n, t):
    return Var(n, t)


def I(v):
    return IntLit(v)


def F(v):
    return FloatLit(v)


def B(op, l, r):
    return mk_bin(op, l, r)


def cases():
    out = []
    S = [("S", [(INT, "k"), (FLOAT, "q")])]
    st = struct_t("S")
    at = arr(INT, [4])
    aft = arr(FLOAT, [4])
    for scope in ("local", "param", "global"):
        for ty in (INT, FLOAT):
            name = {"local": "x", "param": "a", "global": "g"}[scope]
            x = V(name, ty)
            a, b = V("a", ty), V("b", ty)
            n = V("n", INT)
            gl = [(ty, "g")] if scope == "global" else []
            pre = [Decl(ty, "x")] if scope == "local" else []
            one = I(1) if ty == INT else F(1.5)
            two = I(2) if ty == INT else F(2.0)
            src = B("+", b, one)            # the stored value is itself computed
            h = Func("h", [(ty, "v")], ty, Block([ExprStmt(Assign("=", V("v", ty), B("*", V("v", ty), two))), Return(V("v", ty))]), False)
            store = ExprStmt(Assign("=", x, src))
            consumers = {
                "return": [store, Return(x)],
                "chain2": [Decl(ty, "y"), store, ExprStmt(Assign("=", V("y", ty), x)), Return(V("y", ty))],
                "chain3": [Decl(ty, "y"), Decl(ty, "z"), store, ExprStmt(Assign("=", V("y", ty), x)), ExprStmt(Assign("=", V("z", ty), V("y", ty))),
                           Return(B("+", V("z", ty), B("*", V("y", ty), two)))],
                "branch": [store, If(x, Block([Return(one)])), Return(two)],
                "branch_cmp": [store, If(B(">", x, two), Block([Return(x)])), Return(B("-", two, x))],
                "binop_left": [store, Return(B("*", x, b))],
                "binop_both": [store, Return(B("+", x, x))],
                "binop_right": [store, Return(B("-", b, x))],
                "callarg": [store, Return(Call("h", [x], ty, h))],
                "store_elem": [Decl(arr(ty, [4]), "t"), store, ExprStmt(Assign("=", Index(V("t", arr(ty, [4])), I(1), ty), x)),
                               Return(B("+", Index(V("t", arr(ty, [4])), I(1), ty), x))],
                "store_field": [Decl(st, "s"), store, ExprStmt(Assign("=", Field(V("s", st), "k" if ty == INT else "q", ty), x)),
                                Return(Field(V("s", st), "k" if ty == INT else "q", ty))],
                "restore": [store, ExprStmt(Assign("=", x, B("*", x, two))), Return(x)],
                "compound": [store, ExprStmt(Assign("+=", x, two)), ExprStmt(Assign("*=", x, x)), Return(x)],
                "affix_after": [store, ExprStmt(Affix("++", True, x)), Return(x)],
                "intervening": [Decl(ty, "y"), store, ExprStmt(Assign("=", V("y", ty), two)), Return(B("+", x, V("y", ty)))],
                "loop_backedge": [Decl(INT, "c", I(0)), store, While(B("<", V("c", INT), n), Block([ExprStmt(Assign("=", x, B("+", x, one))),
                                                                                                   ExprStmt(Assign("=", V("c", INT), B("+", V("c", INT), I(1))))])),
                                  Return(x)],
                "for_header": [store, Decl(ty, "acc", x), For(Decl(INT, "i", I(0)), B("<", V("i", INT), n), Affix("++", True, V("i", INT)),
                                                            Block([ExprStmt(Assign("=", x, B("+", x, V("acc", ty)))), ExprStmt(Assign("=", V("acc", ty), x))])),
                               Return(B("+", x, V("acc", ty)))],
                "do_loop": [Decl(INT, "c", I(0)), store, Do(Block([ExprStmt(Assign("=", x, B("+", x, two))), ExprStmt(Assign("=", V("c", INT), B("+", V("c", INT), I(1))))]),
                                                            B("<", V("c", INT), n)), Return(x)],
                "if_join": [store, If(B(">", n, I(1)), Block([ExprStmt(Assign("=", x, two))])), Decl(ty, "y", x), Return(B("+", V("y", ty), x))],
                "if_else_join": [store, If(B(">", n, I(1)), Block([ExprStmt(Assign("=", x, two))]), Block([ExprStmt(Assign("=", x, B("*", x, two)))])), Return(x)],
                "decl_init": [store, Decl(ty, "y", x), Decl(ty, "z", V("y", ty)), Return(B("+", V("y", ty), V("z", ty)))],
                "assign_value": [Decl(ty, "y"), ExprStmt(Assign("=", V("y", ty), Assign("=", x, src))), Return(B("+", B("*", V("y", ty), two), x))],
                "const_cast": [store, Return(B("+", B("*", x, F(2.0)), I(1)))] if ty == FLOAT else [store, Return(B("+", B("*", x, I(2)), F(1.0)))],
                "const_cast_cmp": [store, If(B("<", x, I(3) if ty == FLOAT else F(3.0)), Block([Return(one)])), Return(x)],
            }
            # int literals that single precision cannot hold, converted to float: evaluated by the VM when not optimised,
            # folded at compile time when optimised
            if ty == FLOAT:
                consumers["big_const_cast"] = [store, Return(B("+", x, I(16777217)))]
                consumers["big_const_init"] = [Decl(FLOAT, "big", I(33554433)), store, Return(B("-", B("+", x, V("big", FLOAT)), F(33554432.0)))]
                consumers["big_const_construct"] = [store, Decl(F2, "v", Construct(F2, [I(2147483647), I(123456789)])),
                                                    Return(B("+", B("-", Swizzle(V("v", F2), "x"), F(2147483000.0)), B("-", Index(V("v", F2), I(1), FLOAT), F(123456000.0))))]
            if ty == INT:
                consumers["index"] = [Decl(at, "t"), ExprStmt(Assign("=", Index(V("t", at), I(2), INT), I(40))), Decl(INT, "j"),
                                      ExprStmt(Assign("=", V("j", INT), I(2))), store, Return(B("+", Index(V("t", at), V("j", INT), INT), x))]
                consumers["index_fwd"] = [Decl(at, "t"), ExprStmt(Assign("=", Index(V("t", at), I(3), INT), I(40))), ExprStmt(Assign("=", x, I(3))),
                                          ExprStmt(Assign("=", Index(V("t", at), x, INT), B("+", Index(V("t", at), x, INT), b))),
                                          Return(Index(V("t", at), I(3), INT))]
            else:
                consumers["construct"] = [store, Decl(F2, "v", Construct(F2, [x, x])), Return(B("+", Swizzle(V("v", F2), "x"), Index(V("v", F2), I(1), FLOAT)))]
                consumers["swizzle_store"] = [Decl(F2, "v", Construct(F2, [F(1.0), F(2.0)])), store, ExprStmt(Assign("=", Swizzle(V("v", F2), "y"), x)),
                                              Return(B("+", Swizzle(V("v", F2), "y"), Swizzle(V("v", F2), "x")))]
                consumers["cast_int_store"] = [Decl(INT, "k", I(3)), ExprStmt(Assign("=", x, B("*", V("k", INT), F(0.5)))), Return(B("+", x, V("k", INT)))]
            # something between the store and the load that is *not* a variable access but changes the variable
            bump = Func("bump", [], VOID, Block([ExprStmt(Assign("=", V("g", ty), B("+", V("g", ty), one)))]), False)
            bumpv = Func("bumpv", [(ty, "v")], ty, Block([ExprStmt(Assign("=", V("g", ty), B("*", V("g", ty), two))), Return(B("+", V("v", ty), one))]), False)
            if scope == "global":
                consumers["call_between"] = [store, ExprStmt(Call("bump", [], VOID, bump)), Return(x)]
                consumers["call_between_twice"] = [store, ExprStmt(Call("bump", [], VOID, bump)), ExprStmt(Call("bump", [], VOID, bump)), Return(B("+", x, x))]
                consumers["call_value_between"] = [Decl(ty, "y"), store, ExprStmt(Assign("=", V("y", ty), Call("bumpv", [two], ty, bumpv))), Return(B("+", x, V("y", ty)))]
                consumers["call_in_operand"] = [store, Return(B("+", Call("bumpv", [two], ty, bumpv), x))]
            if scope == "local":
                # the same name declared again in a sibling scope: the declaration resets it
                consumers["sibling_redecl"] = [Decl(ty, "r"), Block([Decl(ty, "t", src)]), Block([Decl(ty, "t"), ExprStmt(Assign("=", V("r", ty), V("t", ty)))]),
                                               Return(B("+", V("r", ty), x))]
                consumers["sibling_redecl_loop"] = [Decl(ty, "r"), For(Decl(INT, "i", I(0)), B("<", V("i", INT), n), Affix("++", True, V("i", INT)),
                                                                       Block([Decl(ty, "t"), ExprStmt(Assign("=", V("r", ty), B("+", V("r", ty), V("t", ty)))),
                                                                              ExprStmt(Assign("=", V("t", ty), src))])), Return(V("r", ty))]
            # whole-aggregate assignment followed by an in-place write through the copy: whatever the VM's aliasing rule
            # for arrays and structs is, both optimisation settings must show the same one
            if scope == "local":
                att = arr(ty, [3])
                t_, u_ = V("t", att), V("u", att)
                nine = I(9) if ty == INT else F(9.5)
                consumers["array_assign_then_write"] = [Decl(att, "t"), Decl(att, "u"), ExprStmt(Assign("=", Index(t_, I(0), ty), src)),
                                                        ExprStmt(Assign("=", u_, t_)), ExprStmt(Assign("=", Index(u_, I(0), ty), nine)),
                                                        Return(B("+", B("*", Index(t_, I(0), ty), two), Index(u_, I(0), ty)))]
                consumers["array_assign_then_write_dyn"] = [Decl(att, "t"), Decl(att, "u"), ExprStmt(Assign("=", Index(t_, I(1), ty), src)),
                                                            ExprStmt(Assign("=", u_, t_)), ExprStmt(Assign("=", Index(u_, B("%", B("*", n, n), I(3)), ty), b)),
                                                            Return(B("+", B("*", Index(t_, I(1), ty), two), B("+", Index(u_, I(1), ty), Index(u_, I(0), ty))))]
                s1, s2 = V("s1", st), V("s2", st)
                fld = "k" if ty == INT else "q"
                consumers["struct_assign_then_write"] = [Decl(st, "s1"), Decl(st, "s2"), ExprStmt(Assign("=", Field(s1, fld, ty), src)),
                                                         ExprStmt(Assign("=", s2, s1)), ExprStmt(Assign("=", Field(s2, fld, ty), nine)),
                                                         Return(B("+", B("*", Field(s1, fld, ty), two), Field(s2, fld, ty)))]
            if scope == "global" and ty == INT:
                att = arr(INT, [3])
                consumers["global_array_assign_then_write"] = [Decl(att, "t"), ExprStmt(Assign("=", Index(V("t", att), I(0), INT), src)),
                                                               ExprStmt(Assign("=", V("ga", att), V("t", att))), ExprStmt(Assign("=", Index(V("ga", att), I(0), INT), I(9))),
                                                               Return(B("+", B("*", Index(V("t", att), I(0), INT), I(100)), Index(V("ga", att), I(0), INT)))]
            # narrowing stores (the oracle here is the unoptimised build, so the conversion rule itself is not judged)
            if ty == INT:
                at4 = arr(INT, [4])
                # filled by a loop so that the int constants 2 and 3 do not otherwise occur in the function (IR constants
                # are shared per type and value: an int literal 2 would mask a mis-typed folded 2.0)
                fill = [Decl(at4, "t"), For(Decl(INT, "i", I(0)), B("<", V("i", INT), I(4)), Affix("++", True, V("i", INT)),
                                            Block([ExprStmt(Assign("=", Index(V("t", at4), V("i", INT), INT), B("+", B("*", V("i", INT), I(10)), I(1))))]))]
                consumers["narrow_literal_index"] = fill + [ExprStmt(Assign("=", x, F(2.0))), Return(B("+", Index(V("t", at4), x, INT), b))]
                consumers["narrow_init_index"] = fill + [Decl(INT, "slot", F(3.0)), Return(B("+", Index(V("t", at4), V("slot", INT), INT), b))]
                consumers["narrow_expr"] = fill + [ExprStmt(Assign("=", x, B("*", B("*", b, b), F(0.5)))), Return(B("+", Index(V("t", at4), B("%", B("*", x, x), I(4)), INT), x))]
                f4 = vec(FLOAT, 4)
                m3 = ("mat", FLOAT, 3, 3)
                f3 = vec(FLOAT, 3)
                vdecl = Decl(f4, "v", Construct(f4, [F(0.5), F(1.5), F(2.5), F(3.5)]))
                mdecl = Decl(m3, "m", Construct(m3, [Construct(f3, [F(1.0), F(2.0), F(3.0)]), Construct(f3, [F(4.0), F(5.0), F(6.0)]), Construct(f3, [F(7.0), F(8.0), F(9.0)])]))
                idx = B("%", B("*", b, b), I(3))
                consumers["vec_index"] = [vdecl, ExprStmt(Assign("=", x, idx)), Return(B("+", Index(V("v", f4), x, FLOAT), x))]
                consumers["vec_store_index"] = [vdecl, ExprStmt(Assign("=", x, idx)), ExprStmt(Assign("=", Index(V("v", f4), x, FLOAT), F(9.0))),
                                                Return(B("+", B("+", Index(V("v", f4), I(0), FLOAT), Index(V("v", f4), I(1), FLOAT)), Index(V("v", f4), I(2), FLOAT)))]
                consumers["mat_index"] = [mdecl, ExprStmt(Assign("=", x, idx)), Return(B("+", Index(Index(V("m", m3), x, f3), x, FLOAT), x))]
                consumers["mat_row_store"] = [mdecl, ExprStmt(Assign("=", x, idx)), ExprStmt(Assign("=", Index(V("m", m3), x, f3), Construct(f3, [F(0.0), F(0.5), F(0.25)]))),
                                              Return(B("+", Index(Index(V("m", m3), I(0), f3), I(1), FLOAT), Index(Index(V("m", m3), I(2), f3), I(1), FLOAT)))]
                consumers["mat_elem_store"] = [mdecl, ExprStmt(Assign("=", x, idx)), ExprStmt(Assign("=", Index(Index(V("m", m3), x, f3), x, FLOAT), F(50.0))),
                                               Return(B("+", Index(Index(V("m", m3), I(0), f3), I(0), FLOAT), Index(Index(V("m", m3), I(1), f3), I(1), FLOAT)))]
                consumers["swizzle_of_indexed"] = [mdecl, ExprStmt(Assign("=", x, idx)), Return(B("+", Swizzle(Index(V("m", m3), x, f3), "z"), Swizzle(Index(V("m", m3), x, f3), "x")))]
                consumers["narrow_const_arith"] = [ExprStmt(Assign("=", x, F(7.0))), Return(B("/", x, I(2)))]
                consumers["narrow_const_index_vec"] = [Decl(vec(FLOAT, 4), "v", Construct(vec(FLOAT, 4), [F(0.5), F(1.5), F(2.5), F(3.5)])),
                                                       ExprStmt(Assign("=", x, F(3.0))), Return(B("+", B("*", x, I(100)), I(0)))] 
            for cname, body in consumers.items():
                params = [(ty, "a"), (ty, "b"), (INT, "n")]
                fns = [h] if cname == "callarg" else []
                if cname.startswith("call_between"):
                    fns = [bump]
                if cname in ("call_value_between", "call_in_operand"):
                    fns = [bumpv]
                fns.append(Func("f", params, ty, Block(pre + body), True))
                gl2 = list(gl) + ([(arr(INT, [3]), "ga")] if cname == "global_array_assign_then_write" else [])
                m = Module(structs=S if cname in ("store_field", "struct_assign_then_write") else [], globals=gl2, funcs=fns)
                inputs = []
                for av, bv, nv in ((3, 4, 2), (0, 1, 0), (7, -2, 3)):
                    args = {"a": av if ty == INT else av + 0.5, "b": bv if ty == INT else bv + 0.25, "n": nv}
                    g = {"g": 11 if ty == INT else 11.5} if scope == "global" else {}
                    if cname == "global_array_assign_then_write":
                        g["ga"] = [1, 2, 3]
                    inputs.append((args, g))
                out.append(("fwd:%s:%s:%s" % (scope, ty, cname), m, "f", inputs))
    return out
