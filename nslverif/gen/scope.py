"""Generator 6: block structures with declarations, for the name-visibility property (C12).

A program is a tree of scopes.  Scope kinds: 'fn' (function body), 'block', 'then', 'else', 'forhdr'
(the for statement: its header variable is a declaration of this scope and its body is a child scope
'body'), 'while', 'do'.  Items of a scope, in order:
  ('decl', name, type, value)     a declaration with a literal initialiser
  ('use', name)                   acc = acc + name            (reads the binding)
  ('bump', name)                  name = name + 1             (writes the binding)
  ('scope', Scope)                a nested statement that opens the child scope
  ('if', Scope then, Scope|None)  an if statement with its branch scopes
The oracle `conflicts()` replays the tree with an explicit scope chain: a declaration conflicts when
its name is visible at that point (parameter, global, same or enclosing scope); a use/bump conflicts
when its name is not visible.  Everything else is valid by construction."""
import itertools

from ..lang import (INT, FLOAT, IntLit, FloatLit, Var, Bin, Assign, Affix, Decl, ExprStmt, Block, If, For, While, Do,
                    Return, Func, Module)

KINDS = ("block", "if", "ifelse", "for", "while", "do")


class Scope:
    def __init__(self, kind, items=None):
        self.kind = kind
        self.items = items if items is not None else []

    def clone(self):
        out = Scope(self.kind, [])
        for it in self.items:
            if it[0] == "scope":
                out.items.append(("scope", it[1].clone()))
            elif it[0] == "if":
                out.items.append(("if", it[1].clone(), it[2].clone() if it[2] is not None else None))
            else:
                out.items.append(it)
        return out


class Program:
    def __init__(self, root, params, globals_, globals_after=False):
        self.root = root              # Scope kind 'fn'
        self.params = params          # [(type, name)]
        self.globals = globals_       # [(type, name)]
        self.globals_after = globals_after


def positions(sc, path=()):
    """every insertion point: (path to scope, index)"""
    for i in range(len(sc.items) + 1):
        yield path, i
    for i, it in enumerate(sc.items):
        if it[0] == "scope":
            yield from positions(it[1], path + ((i, 0),))
        elif it[0] == "if":
            yield from positions(it[1], path + ((i, 1),))
            if it[2] is not None:
                yield from positions(it[2], path + ((i, 2),))


def scope_at(sc, path):
    for i, which in path:
        it = sc.items[i]
        sc = it[1] if which in (0, 1) else it[2]
    return sc


def all_decls(sc, acc=None):
    """[(name, type)] of every declaration in the tree"""
    acc = acc if acc is not None else []
    for it in sc.items:
        if it[0] == "decl":
            acc.append((it[1], it[2]))
        elif it[0] == "scope":
            all_decls(it[1], acc)
        elif it[0] == "if":
            all_decls(it[1], acc)
            if it[2] is not None:
                all_decls(it[2], acc)
    return acc


def all_decl_names(sc, acc=None):
    acc = acc if acc is not None else []
    for it in sc.items:
        if it[0] == "decl":
            acc.append(it[1])
        elif it[0] == "scope":
            all_decl_names(it[1], acc)
        elif it[0] == "if":
            all_decl_names(it[1], acc)
            if it[2] is not None:
                all_decl_names(it[2], acc)
    return acc


def conflicts(prog):
    """list of (what, name, relation) in source order; empty list = the program must be accepted"""
    out = []
    base = {n: "parameter" for _, n in prog.params}
    base.update({n: "global" for _, n in prog.globals})

    def walk(sc, chain):
        local = {}
        chain = chain + [(sc.kind, local)]
        for it in sc.items:
            if it[0] == "decl":
                name = it[1]
                rel = None
                if name in local:
                    rel = "same-scope"
                else:
                    for kind, names in reversed(chain[:-1]):
                        if name in names:
                            rel = "enclosing-" + ("loop-header" if kind == "forhdr" else ("function" if kind == "fn" else "scope"))
                            break
                    if rel is None and name in base:
                        rel = base[name]
                if rel is not None:
                    out.append(("redeclaration", name, rel))
                local.setdefault(name, it[2])
            elif it[0] == "stmtdecl":
                # `if (c) T name = v;` / `for (int j..) T name = v;` / `while (c) T name = v;`: the statement is a scope of
                # its own that holds the name (and a for header variable); nothing of it is visible afterwards
                _, skind, name, ty, val = it
                rel = None
                if skind == "for" and name == "jj":
                    rel = "same-scope"
                elif name in local:
                    rel = "enclosing-scope"
                else:
                    for kind, names in reversed(chain[:-1]):
                        if name in names:
                            rel = "enclosing-" + ("loop-header" if kind == "forhdr" else ("function" if kind == "fn" else "scope"))
                            break
                    if rel is None and name in base:
                        rel = base[name]
                if rel is not None:
                    out.append(("redeclaration", name, "unbraced-body:" + rel))
                if skind == "for":
                    for kind, names in chain:
                        if "jj" in names:
                            out.append(("redeclaration", "jj", "enclosing-scope"))
                    if "jj" in base:
                        out.append(("redeclaration", "jj", base["jj"]))
            elif it[0] in ("use", "bump"):
                name = it[1]
                vis = name in base or any(name in names for _, names in chain)
                if not vis:
                    out.append(("unknown-name", name, "not-visible"))
            elif it[0] == "scope":
                walk(it[1], chain)
            elif it[0] == "if":
                # the if statement itself is a scope level (condition, branches) in the compiler; it holds no names
                walk(it[1], chain)
                if it[2] is not None:
                    walk(it[2], chain)

    walk(prog.root, [])
    return out


def visible_at(prog, path, index):
    """names visible at an insertion point (declared before it in the same or an enclosing scope, params, globals)"""
    names = {n for _, n in prog.params} | {n for _, n in prog.globals}
    sc = prog.root
    steps = list(path) + [None]
    for step in steps:
        upto = index if step is None else step[0]
        for it in sc.items[:upto]:
            if it[0] == "decl":
                names.add(it[1])
        if step is None:
            break
        it = sc.items[step[0]]
        sc = it[1] if step[1] in (0, 1) else it[2]
    return names


# ------------------------------------------------------------------ to lang
def _lit(ty, v):
    return IntLit(int(v)) if ty == INT else FloatLit(float(v))


def to_module(prog, types_of=None):
    """lang.Module of the program.  The type of a name at a use is found by replaying the scopes (names may be
    reused with other types in disjoint scopes).  while/do loops get generator-private counters w_k declared at
    the top of the function."""
    counter = [0]
    counters = []

    def simple(it, env):
        if it[0] == "decl":
            _, name, ty, val = it
            return Decl(ty, name, _lit(ty, val) if val is not None else None)
        ty = env.get(it[1], INT)
        if it[0] == "use":
            return ExprStmt(Assign("=", Var("acc", FLOAT), Bin("+", Bin("*", Var("acc", FLOAT), FloatLit(2.0), FLOAT),
                                                               Var(it[1], ty), FLOAT)))
        one = IntLit(1) if ty == INT else FloatLit(1.0)
        return ExprStmt(Assign("=", Var(it[1], ty), Bin("+", Var(it[1], ty), one, ty)))

    def stmts(sc, env):
        env = dict(env)
        out = []
        for it in sc.items:
            if it[0] == "stmtdecl":
                _, skind, name, ty, val = it
                d = Decl(ty, name, _lit(ty, val))
                if skind == "if":
                    out.append(If(Bin(">", Var("p", INT), IntLit(0), INT), d))
                elif skind == "ifelse":
                    out.append(If(Bin(">", Var("p", INT), IntLit(0), INT), d, Decl(ty, name, _lit(ty, val + 1))))
                elif skind == "for":
                    out.append(For(Decl(INT, "jj", IntLit(0)), Bin("<", Var("jj", INT), IntLit(2), INT), Affix("++", True, Var("jj", INT)), d))
                else:
                    out.append(While(Bin(">", Var("p", INT), IntLit(100), INT), d))
                continue
            if it[0] == "scope":
                out.extend(scope_stmt(it[1], env))
            elif it[0] == "if":
                cond = Bin(">", Var("p", INT), IntLit(counter[0] % 2), INT)
                counter[0] += 1
                then = Block(stmts(it[1], env))
                els = Block(stmts(it[2], env)) if it[2] is not None else None
                out.append(If(cond, then, els))
            else:
                out.append(simple(it, env))
                if it[0] == "decl":
                    env[it[1]] = it[2]
        return out

    def scope_stmt(sc, env):
        k = sc.kind
        if k == "block":
            return [Block(stmts(sc, env))]
        if k == "forhdr":
            hdr = sc.items[0]
            bodysc = sc.items[1][1]
            i = hdr[1]
            env2 = dict(env)
            env2[i] = INT
            return [For(Decl(INT, i, IntLit(0)), Bin("<", Var(i, INT), IntLit(2), INT), Affix("++", True, Var(i, INT)),
                        Block(stmts(bodysc, env2)))]
        counter[0] += 1
        w = "w_%d" % counter[0]
        counters.append(w)
        inc = ExprStmt(Assign("=", Var(w, INT), Bin("+", Var(w, INT), IntLit(1), INT)))
        bodyb = Block([inc] + stmts(sc, env))
        cond = Bin("<", Var(w, INT), IntLit(2), INT)
        loop = While(cond, bodyb) if k == "while" else Do(bodyb, cond)
        return [ExprStmt(Assign("=", Var(w, INT), IntLit(0))), loop]

    env0 = {n: t for t, n in prog.params}
    env0.update({n: t for t, n in prog.globals})
    inner = stmts(prog.root, env0)
    head = [Decl(FLOAT, "acc", FloatLit(0.0))] + [Decl(INT, w, IntLit(0)) for w in counters]
    f = Func("f", list(prog.params), FLOAT, Block(head + inner + [Return(Var("acc", FLOAT))]), True)
    return Module(globals=list(prog.globals), funcs=[f])


def print_program(prog):
    from ..lang import module_tokens, join_tokens, func_tokens, type_str
    m = to_module(prog, None)
    if not prog.globals_after:
        return m, join_tokens(module_tokens(m))
    toks = []
    for f in m.funcs:
        func_tokens(f, toks)
    for t, n in m.globals:
        toks.extend([type_str(t), n, ";"])
    return m, join_tokens(toks)


# ------------------------------------------------------------ skeletons
def make_child(kind, items):
    """wrap `items` as the content of a construct of the given kind; returns the item to put in the parent"""
    if kind == "block":
        return ("scope", Scope("block", items))
    if kind == "if":
        return ("if", Scope("then", items), None)
    if kind == "ifelse":
        # content goes to the else branch, the then branch gets a sibling declaration of its own
        return ("if", Scope("then", [("decl", "t_then", FLOAT, 7)]), Scope("else", items))
    if kind == "for":
        return ("scope", Scope("forhdr", [("decl", "i%d" % (len(items) % 3), INT, 0), ("scope", Scope("body", items))]))
    if kind in ("while", "do"):
        return ("scope", Scope(kind, items))
    raise ValueError(kind)


def enumerate_skeletons(max_nodes):
    """all scope trees with 1..max_nodes construct nodes under the function body; every scope declares one variable
    first and uses it last"""
    shapes = {1: [("n",)], 2: [("n", ("n",)), ("n",), ], 3: []}
    # represent a forest as nested tuples: tree = ('n', child trees...), forest = list of trees

    def forests(n):
        """all ordered forests with exactly n nodes"""
        if n == 0:
            return [()]
        out = []
        for first in range(1, n + 1):
            for t in trees(first):
                for rest in forests(n - first):
                    out.append((t,) + rest)
        return out

    def trees(n):
        return [("n",) + f for f in forests(n - 1)]

    result = []
    for n in range(1, max_nodes + 1):
        for forest in forests(n):
            nnodes = n
            for kinds in itertools.product(KINDS, repeat=nnodes):
                it = iter(kinds)
                ctr = itertools.count(1)

                def build(tree):
                    kind = next(it)
                    k = next(ctr)
                    name = "v%d" % k
                    items = [("decl", name, INT if k % 2 else FLOAT, k)]
                    for ch in tree[1:]:
                        items.append(build(ch))
                    items.append(("use", name))
                    return make_child(kind, items)

                root_items = [("decl", "v0", INT, 9)]
                for t in forest:
                    root_items.append(build(t))
                root_items.append(("use", "v0"))
                result.append(Scope("fn", root_items))
    return result


def random_skeleton(rng, max_depth=3, max_items=4):
    ctr = itertools.count(1)
    pool = ["a", "b", "c", "d", "x", "y", "n", "m"]

    def content(depth, visible):
        items = []
        local = set()
        n = rng.randint(1, max_items)
        for _ in range(n):
            r = rng.random()
            if r < 0.4:
                # a fresh-here name: either never used, or one that lives only in closed/disjoint scopes
                cands = [p for p in pool if p not in visible and p not in local]
                if not cands:
                    continue
                name = rng.choice(cands)
                ty = rng.choice([INT, FLOAT])
                items.append(("decl", name, ty, next(ctr)))
                local.add(name)
            elif r < 0.6 and (visible or local):
                items.append((rng.choice(["use", "use", "bump"]), rng.choice(sorted(visible | local))))
            elif depth < max_depth:
                kind = rng.choice(KINDS)
                vis2 = visible | local
                if kind == "for":
                    inner = content(depth + 1, vis2 | {"i0", "i1", "i2"})
                else:
                    inner = content(depth + 1, vis2)
                child = make_child(kind, inner)
                if kind == "for":
                    # header variable name must be fresh w.r.t. what is visible
                    hdr = child[1].items[0]
                    if hdr[1] in vis2:
                        continue
                if kind == "ifelse" and "t_then" in vis2:
                    continue
                items.append(child)
        for name in sorted(local):
            if rng.random() < 0.7:
                items.append(("use", name))
        return items

    params = [(INT, "p")] + ([(rng.choice([INT, FLOAT]), "q")] if rng.random() < 0.5 else [])
    globals_ = [(rng.choice([INT, FLOAT]), "g%d" % i) for i in range(rng.randint(0, 2))]
    vis = {n for _, n in params} | {n for _, n in globals_}
    root = Scope("fn", content(0, vis))
    for _, n in params[1:] + globals_:
        root.items.append(("use", n))
    return Program(root, params, globals_, globals_after=rng.random() < 0.3)


def sibling_family():
    """directed: a name re-used by two disjoint sibling scopes of every kind; the first scope ends with a store to it, the
    second declares it without initialiser (same or another type) and reads it *first* in an expression.
    (name, lang.Module) — export f(int p) -> float"""
    from ..lang import mk_bin
    out = []
    p = Var("p", INT)

    def wrap(kind, stmts, k):
        if kind == "block":
            return [Block(stmts)]
        if kind == "if":
            return [If(Bin("<", p, IntLit(100), INT), Block(stmts))]
        if kind == "else":
            return [If(Bin(">", p, IntLit(100), INT), Block([]), Block(stmts))]
        if kind == "for":
            return [For(Decl(INT, "i%d" % k, IntLit(0)), Bin("<", Var("i%d" % k, INT), IntLit(2), INT), Affix("++", True, Var("i%d" % k, INT)), Block(stmts))]
        raise ValueError(kind)

    for k1 in ("block", "if", "else", "for"):
        for k2 in ("block", "if", "else", "for"):
            for t1, t2 in ((INT, INT), (FLOAT, FLOAT), (INT, FLOAT), (FLOAT, INT)):
                a1, a2 = Var("a", t1), Var("a", t2)
                r = Var("r", FLOAT)
                first = [Decl(t1, "a", mk_bin("+", p, IntLit(3)) if t1 == INT else mk_bin("+", p, FloatLit(3.5)))]
                second = [Decl(t2, "a"), ExprStmt(Assign("=", r, mk_bin("+", a2, r))), ExprStmt(Assign("=", a2, mk_bin("+", a2, IntLit(1) if t2 == INT else FloatLit(1.0)))),
                          ExprStmt(Assign("=", r, mk_bin("+", mk_bin("*", a2, FloatLit(10.0)), r)))]
                body = [Decl(FLOAT, "r", FloatLit(0.25))] + wrap(k1, first, 1) + wrap(k2, second, 2) + [Return(r)]
                f = Func("f", [(INT, "p")], FLOAT, Block(body), True)
                out.append(("sibling:%s:%s:%s:%s" % (k1, k2, t1, t2), Module(funcs=[f])))
    return out


def cross_function_family():
    """directed: one name used by two *functions* of a module in every pair of roles (parameter, function-level local,
    loop-header variable, block local), either function first; the second function calls the first and reads its own `n`
    again after the call.  Functions are disjoint scopes: each use binds to its own function's declaration.
    (name, lang.Module, [(function, inputs)])"""
    from ..lang import mk_bin, Call
    out = []
    roles = ("param", "local", "forhdr", "blocklocal")

    def body(role, ty, pname, callee):
        P = Var(pname, INT)
        n = Var("n", INT if role in ("param", "forhdr") else ty)
        r = Var("r", FLOAT)
        add = lambda e: ExprStmt(Assign("=", r, mk_bin("+", r, e)))
        if role == "param":
            st = [Decl(FLOAT, "r", mk_bin("+", mk_bin("*", n, FloatLit(2.0)), FloatLit(1.0)))]
        elif role == "local":
            st = [Decl(ty, "n", mk_bin("+", P, IntLit(3)) if ty == INT else mk_bin("+", P, FloatLit(3.5))),
                  Decl(FLOAT, "r", mk_bin("+", mk_bin("*", n, FloatLit(2.0)), FloatLit(1.0)))]
        elif role == "forhdr":
            st = [Decl(FLOAT, "r", FloatLit(0.5)),
                  For(Decl(INT, "n", IntLit(0)), Bin("<", n, IntLit(3), INT), Affix("++", True, n), Block([add(mk_bin("+", n, P))]))]
        else:
            st = [Decl(FLOAT, "r", FloatLit(0.25)),
                  Block([Decl(ty, "n", mk_bin("+", P, IntLit(1)) if ty == INT else mk_bin("+", P, FloatLit(1.5))), add(mk_bin("*", n, FloatLit(2.0)))])]
        if callee is not None:
            st.append(add(Call(callee.name, [mk_bin("+", P, IntLit(10))], FLOAT, callee)))
            if role in ("param", "local"):
                st.append(add(mk_bin("*", n, FloatLit(100.0))))       # own `n` again, after the call
                st.append(ExprStmt(Assign("=", n, mk_bin("+", n, IntLit(1) if n.ty == INT else FloatLit(1.0)))))
                st.append(add(n))
        st.append(Return(r))
        return st

    k = 0
    for r1 in roles:
        for r2 in roles:
            for order in ("callee-first", "caller-first"):
                ty1, ty2 = ((INT, FLOAT), (FLOAT, INT), (INT, INT), (FLOAT, FLOAT))[k % 4]
                k += 1
                pn1 = "n" if r1 == "param" else "p"
                pn2 = "n" if r2 == "param" else "q"
                g = Func("g", [(INT, pn1)], FLOAT, Block(body(r1, ty1, pn1, None)), True)
                f = Func("f", [(INT, pn2)], FLOAT, Block(body(r2, ty2, pn2, g)), True)
                funcs = [g, f] if order == "callee-first" else [f, g]
                calls = [("g", [({pn1: v}, {}) for v in (0, 4)]), ("f", [({pn2: v}, {}) for v in (0, 1, 5)])]
                out.append(("crossfn:%s:%s:%s" % (r1, r2, order), Module(funcs=funcs), calls))
    return out
