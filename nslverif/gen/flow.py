"""Generator 5: statement trees for break/continue placement (C11).

A program is described by a *chain* of constructs from the function body inwards, a flow
statement kind, and a placement level j: the flow statement sits in the body of the j-th
construct of the chain (level 0 = directly in the function body), after the nested (j+1)-th
construct when there is one.  Its loop depth is the number of loop constructs among chain[:j].
All loops are bounded by construction; every braced loop level k keeps a counter ck that is
incremented at the end of its body, so the returned number shows which loop a break/continue
affected (innermost binding)."""
import itertools

from ..lang import (INT, IntLit, Var, Bin, Assign, Affix, Decl, ExprStmt, Block, If, For, While, Do, Break, Continue,
                    Return, Func, Module)

# for_ns: a `for` whose header has no step (the body advances the variable first); for_nc: no test (the body leaves)
CONSTRUCTS = ("block", "if", "if1", "ifelse_then", "ifelse_else", "elseif", "for", "for1", "while", "while1", "do", "for_ns", "for_nc")
LOOPS = {"for", "for1", "while", "while1", "do", "for_ns", "for_nc"}
BRACED_LOOPS = ("for", "while", "do", "for_ns", "for_nc")
UNBRACED = {"if1", "for1", "while1"}


def V(n):
    return Var(n, INT)


def I(v):
    return IntLit(v)


def B(op, l, r):
    return Bin(op, l, r, INT)


def loop_depth(chain, j):
    return sum(1 for c in chain[:j] if c in LOOPS)


def placeable(chain, j):
    """can a flow statement be placed at level j?  (an unbraced construct holds exactly one statement)"""
    if j == 0:
        return True
    if chain[j - 1] in UNBRACED and j < len(chain):
        return False
    return True


def runnable(chain):
    return "while1" not in chain


def build(chain, flows):
    """flows: list of (kind, level).  Returns Module with export f(int p) -> int."""
    by_level = {}
    for fl in flows:
        kind, j = fl[0], fl[1]
        where = fl[2] if len(fl) > 2 else "after"
        guarded = fl[3] if len(fl) > 3 else False
        by_level.setdefault((j, where), []).append((kind, guarded))
    decls = []
    counters = []

    def nearest_counter(j):
        """counter of the innermost braced loop enclosing level j (None when there is none)"""
        for k in range(j - 1, -1, -1):
            if chain[k] in BRACED_LOOPS:
                return "c%d" % k
        return None

    def flow_stmts(j, where="after"):
        out = []
        for kind, guarded in by_level.get((j, where), []):
            st = Break() if kind == "break" else Continue()
            ctr = nearest_counter(j)
            if guarded and ctr is not None:
                # taken on some iterations only (the counters count 1, 12, 23, ... per completed iteration)
                st = If(B("==", B("%", V(ctr), I(3)), B("%", V("p"), I(3))), st)
            out.append(st)
        return out

    def cond(k):
        return B("!=", V("p"), I(k % 3))

    def level(k):
        """statements forming the body at level k (inside construct k-1)"""
        inner = []
        if k < len(chain):
            inner = construct(k)
        return flow_stmts(k, "before") + inner + flow_stmts(k, "after")

    def wrap(stmts, braced):
        if braced:
            return Block(stmts)
        assert len(stmts) == 1, (chain, flows)
        return stmts[0]

    def reinit(k):
        # under an unbraced parent only one statement fits: the loop then runs on its first entry only
        if k > 0 and chain[k - 1] in UNBRACED:
            return []
        return [ExprStmt(Assign("=", V("w%d" % k), I(0)))]

    def construct(k):
        c = chain[k]
        body = level(k + 1)
        ck = "c%d" % k
        if c == "block":
            return [Block(body)]
        if c == "if":
            return [If(cond(k), Block(body))]
        if c == "if1":
            return [If(cond(k), wrap(body, False))]
        if c == "ifelse_then":
            return [If(cond(k), Block(body), Block([ExprStmt(Assign("=", V("e"), B("+", V("e"), I(1))))]))]
        if c == "ifelse_else":
            return [If(cond(k), Block([ExprStmt(Assign("=", V("e"), B("+", V("e"), I(1))))]), Block(body))]
        if c == "elseif":
            return [If(B("==", V("p"), I(7)), Block([ExprStmt(Assign("=", V("e"), B("+", V("e"), I(1))))]),
                       If(cond(k), Block(body)))]
        if c == "for":
            counters.append(ck)
            # the counter update runs before the body so that an unconditional break/continue in the
            # body leaves it visible
            return [For(Decl(INT, "i%d" % k, I(0)), B("<", V("i%d" % k), I(3)), Affix("++", True, V("i%d" % k)),
                        Block([ExprStmt(Assign("=", V(ck), B("+", V(ck), I(1))))] + body +
                              [ExprStmt(Assign("=", V(ck), B("+", V(ck), I(10))))]))]
        if c == "for_ns":
            counters.append(ck)
            iv = V("i%d" % k)
            return [For(Decl(INT, "i%d" % k, I(0)), B("<", iv, I(3)), None,
                        Block([ExprStmt(Assign("=", iv, B("+", iv, I(1)))), ExprStmt(Assign("=", V(ck), B("+", V(ck), I(1))))] + body +
                              [ExprStmt(Assign("=", V(ck), B("+", V(ck), I(10))))]))]
        if c == "for_nc":
            counters.append(ck)
            iv = V("i%d" % k)
            return [For(Decl(INT, "i%d" % k, I(0)), None, Affix("++", True, iv),
                        Block([If(B(">=", iv, I(3)), Block([Break()])), ExprStmt(Assign("=", V(ck), B("+", V(ck), I(1))))] + body +
                              [ExprStmt(Assign("=", V(ck), B("+", V(ck), I(10))))]))]
        if c == "for1":
            return [For(Decl(INT, "i%d" % k, I(0)), B("<", V("i%d" % k), I(3)), Affix("++", True, V("i%d" % k)), wrap(body, False))]
        if c == "while":
            counters.append(ck)
            decls.append(Decl(INT, "w%d" % k, None))
            return reinit(k) + [
                    While(B("<", V("w%d" % k), I(3)),
                          Block([ExprStmt(Assign("=", V("w%d" % k), B("+", V("w%d" % k), I(1)))),
                                 ExprStmt(Assign("=", V(ck), B("+", V(ck), I(1))))] + body +
                                [ExprStmt(Assign("=", V(ck), B("+", V(ck), I(10))))]))]
        if c == "while1":
            return [While(B("<", V("p"), I(100)), wrap(body, False))]
        if c == "do":
            counters.append(ck)
            decls.append(Decl(INT, "w%d" % k, None))
            return reinit(k) + [
                    Do(Block([ExprStmt(Assign("=", V("w%d" % k), B("+", V("w%d" % k), I(1)))),
                              ExprStmt(Assign("=", V(ck), B("+", V(ck), I(1))))] + body +
                             [ExprStmt(Assign("=", V(ck), B("+", V(ck), I(10))))]),
                       B("<", V("w%d" % k), I(3)))]
        raise ValueError(c)

    body = level(0)
    head = [Decl(INT, "e", I(0))] + [Decl(INT, c, I(0)) for c in sorted(set(counters))] + decls
    ret = V("e")
    for idx, c in enumerate(sorted(set(counters))):
        ret = B("+", B("*", ret, I(1000)), V(c))
    f = Func("f", [(INT, "p")], INT, Block(head + body + [Return(ret)]), True)
    return Module(funcs=[f])


def single_cases(max_len):
    """(chain, [(kind, j)]) for every chain up to max_len, kind, placement"""
    for n in range(0, max_len + 1):
        for chain in itertools.product(CONSTRUCTS, repeat=n):
            for j in range(0, n + 1):
                if not placeable(chain, j):
                    continue
                # an empty unbraced tail is not printable: the innermost unbraced construct needs the flow statement
                if n > 0 and chain[-1] in UNBRACED and j != n:
                    continue
                for kind in ("break", "continue"):
                    yield chain, [(kind, j)]


def random_case(rng, min_len, max_len):
    """several flow statements, before and after the nested construct of their level, mostly guarded so that the
    code behind them stays reachable (an outer break *before* an inner loop that contains a continue, ...)"""
    n = rng.randint(min_len, max_len)
    chain = tuple(rng.choice(CONSTRUCTS) for _ in range(n))
    levels = [j for j in range(n + 1) if placeable(chain, j)]
    if chain and chain[-1] in UNBRACED:
        must = n
    else:
        must = None
    k = rng.choice([1, 2, 2, 3, 4])
    flows = []
    if must is not None:
        flows.append((rng.choice(["break", "continue"]), must, "after", rng.random() < 0.5))
    tries = 0
    while len(flows) < k and tries < 20:
        tries += 1
        j = rng.choice(levels)
        where = rng.choice(["before", "after"]) if j < n else "after"
        # an unbraced construct holds exactly one statement: no second statement at a level whose parent is unbraced
        if j > 0 and chain[j - 1] in UNBRACED:
            continue
        if any(f[1] == j and f[2] == where for f in flows):
            continue
        flows.append((rng.choice(["break", "continue"]), j, where, rng.random() < 0.8))
    return chain, flows


def paired_cases():
    """outer flow statement before an inner loop that has its own flow statement: all loop-kind pairs x kinds"""
    braced = BRACED_LOOPS
    for outer in braced:
        for inner in braced:
            for mid in ((), ("block",), ("if",), ("ifelse_else",)):
                for k0 in ("break", "continue"):
                    for k1 in ("break", "continue"):
                        chain = (outer,) + mid + (inner,)
                        yield chain, [(k0, 1, "before", True), (k1, len(chain), "after", True)]
                        yield chain, [(k0, 1, "before", True), (k0, 1, "after", True), (k1, len(chain), "after", True)]
