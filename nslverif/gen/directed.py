"""Directed (enumerated) program families for the scalar core: operator pairs, integer
division grid, compound assignment x lvalue kind, ++/-- forms x positions, break/continue x
loop kind x nesting, literal forms, re-initialised locals, assignment used as a value.

Each case is (name, Module, exported function name, [ (args, globals) ... ])."""
import itertools

from ..lang import (INT, FLOAT, VOID, IntLit, FloatLit, Var, Index, Field, Bin, Assign, Affix, Call,
                    Decl, ExprStmt, Block, If, For, While, Do, Break, Continue, Return, Func, Module,
                    arr, struct_t, mk_bin, natural, BINOPS, PREC)

V = Var
I = IntLit
F = FloatLit


def B(op, l, r):
    return mk_bin(op, l, r)


def fn(name, params, ret, stmts, exported=True):
    return Func(name, params, ret, Block(stmts), exported)


def mod(funcs, globals=None, structs=None):
    return Module(structs=structs or [], globals=globals or [], funcs=funcs)


INT_TRIPLES = [(7, 3, 2), (2, 3, 4), (10, 4, 3), (1, 0, 1), (0, 1, 0), (5, 5, 5), (9, 2, 2), (3, 7, 1),
               (8, 2, 0), (0, 0, 0), (1, 1, 2), (6, 3, 3), (2, 2, 1), (12, 5, 7), (1, 2, 3), (4, 1, 1)]
FLOAT_TRIPLES = [(7.0, 3.0, 2.0), (2.5, 0.5, 4.0), (1.0, 0.0, 1.0), (0.0, 1.0, 0.0), (5.0, 5.0, 5.0),
                 (9.0, 2.0, 2.0), (1.5, 2.5, 0.5), (0.0, 0.0, 0.0), (3.0, 7.0, 1.0), (8.0, 2.0, 0.0),
                 (1.0, 1.0, 2.0), (2.0, 2.0, 1.0)]
NEG_TRIPLES = [(-7, 2, 3), (7, -2, 3), (-1, -1, -1), (-9, 4, -2), (5, -3, 2)]


def op_pairs():
    """all 169 ordered pairs a op1 b op2 c, for int, float and mixed operands"""
    out = []
    for op1, op2 in itertools.product(BINOPS, BINOPS):
        for kind in ("int", "float", "mixed"):
            if kind != "int" and ("%" in (op1, op2)):
                continue
            ts = {"int": (INT, INT, INT), "float": (FLOAT, FLOAT, FLOAT), "mixed": (INT, FLOAT, INT)}[kind]
            a, b, c = V("a", ts[0]), V("b", ts[1]), V("c", ts[2])
            try:
                tree = natural([op1, op2], [a, b, c])
            except ValueError:
                continue
            f = fn("f", [(ts[0], "a"), (ts[1], "b"), (ts[2], "c")], tree.ty, [Return(tree)])
            triples = INT_TRIPLES + (NEG_TRIPLES if "%" not in (op1, op2) else [])
            if kind == "float":
                triples = FLOAT_TRIPLES
            inputs = []
            for (x, y, z) in triples:
                vals = []
                for v, t in zip((x, y, z), ts):
                    vals.append(float(v) if t == FLOAT else int(v))
                inputs.append(({"a": vals[0], "b": vals[1], "c": vals[2]}, {}))
            out.append(("oppair:%s:%s:%s" % (op1, op2, kind), mod([f]), "f", inputs, tree))
    return out


def other_grouping(tree):
    """the alternative grouping of a two-operator tree (for the non-triviality measure)"""
    if isinstance(tree.l, Bin) and not isinstance(tree.r, Bin):
        try:
            return mk_bin(tree.l.op, tree.l.l, mk_bin(tree.op, tree.l.r, tree.r))
        except ValueError:
            return None
    if isinstance(tree.r, Bin) and not isinstance(tree.l, Bin):
        try:
            return mk_bin(tree.r.op, mk_bin(tree.op, tree.l, tree.r.l), tree.r.r)
        except ValueError:
            return None
    return None


def div_grid():
    out = []
    vals = [-9, -7, -4, -1, 0, 1, 2, 3, 7, 8]
    inputs = [({"a": a, "b": b}, {}) for a in vals for b in vals if b != 0]
    a, b = V("a", INT), V("b", INT)
    forms = {
        "plain": [Return(B("/", a, b))],
        "scaled": [Return(B("*", B("/", a, b), I(2)))],
        "local": [Decl(INT, "q", B("/", a, b)), Return(B("+", V("q", INT), V("q", INT)))],
        "compound": [Decl(INT, "q", a), ExprStmt(Assign("/=", V("q", INT), b)), Return(V("q", INT))],
        "chain": [Return(B("/", B("/", B("*", a, I(100)), b), I(3)))],
        "literal": [Return(B("/", a, I(2)))],
        "litneg": [Return(B("/", a, I(-2)))],
        "cmp": [Return(B("==", B("*", B("/", a, b), b), a))],
        "mixedfloat": [Return(B("/", a, F(2.0)))],
    }
    # both operands literal (a constant folder must truncate like the VM does)
    for x, y in ((-7, 2), (7, -2), (-7, -2), (9, -4), (-9, 4), (-1, 2), (1, -2), (-8, 3), (100, -7), (-100, 7), (6, 3), (-6, 3)):
        forms["const:%d:%d" % (x, y)] = [Return(B("+", B("/", I(x), I(y)), B("*", B("/", B("-", I(x), I(1)), I(y)), I(1000))))]
    for k, body in forms.items():
        ret = FLOAT if k == "mixedfloat" else INT
        out.append(("intdiv:%s" % k, mod([fn("f", [(INT, "a"), (INT, "b")], ret, body)]), "f", inputs))
    return out


def _lvalue_setups(ty):
    """(kind, globals, structs, local decl statements, lvalue expr, extra params)"""
    S = [("S", [(INT, "p"), (ty, "q")])]
    at = arr(ty, [3])
    st = struct_t("S")
    return [
        ("local", [], [], [Decl(ty, "x")], V("x", ty)),
        ("param", [], [], [], V("a", ty)),
        ("global", [(ty, "g")], [], [], V("g", ty)),
        ("arr_const", [], [], [Decl(at, "x")], Index(V("x", at), I(1), ty)),
        ("arr_dyn", [], [], [Decl(at, "x")], Index(V("x", at), V("i", INT), ty)),
        ("field", [], S, [Decl(st, "x")], Field(V("x", st), "q", ty)),
        ("garr_dyn", [(at, "g")], [], [], Index(V("g", at), V("i", INT), ty)),
        ("gfield", [(st, "g")], S, [], Field(V("g", st), "q", ty)),
    ]


def compound_assign():
    out = []
    for ty in (INT, FLOAT):
        for kind, gl, structs, decls, lv in _lvalue_setups(ty):
            for op in ("=", "+=", "-=", "*=", "/="):
                a, b = V("a", ty), V("b", ty)
                params = [(ty, "a"), (ty, "b"), (INT, "i")]
                if kind == "param":
                    body = [ExprStmt(Assign(op, lv, b)), Return(lv)]
                else:
                    body = decls + [ExprStmt(Assign("=", lv, a)), ExprStmt(Assign(op, lv, b)), Return(lv)]
                vals = [(7, 2), (5, 3), (-6, 4), (0, 1), (9, -2), (1, 7)]
                inputs = []
                for x, y in vals:
                    for i in (0, 2):
                        g = {}
                        for gt, gn in gl:
                            if gt == ty:
                                g[gn] = 11 if ty == INT else 11.5
                            elif gt[0] == "arr":
                                g[gn] = [1, 2, 3] if ty == INT else [1.5, 2.5, 3.5]
                            else:
                                g[gn] = {"p": 4, "q": 5 if ty == INT else 5.5}
                        inputs.append(({"a": x if ty == INT else x + 0.5,
                                        "b": y if ty == INT else float(y), "i": i}, g))
                out.append(("assign:%s:%s:%s" % (ty, kind, op), mod([fn("f", params, ty, body)], gl, structs), "f", inputs))
                # mixed: float target, int value (widening)
                if ty == FLOAT:
                    params2 = [(FLOAT, "a"), (INT, "b"), (INT, "i")]
                    bi = V("b", INT)
                    if kind == "param":
                        body2 = [ExprStmt(Assign(op, lv, bi)), Return(lv)]
                    else:
                        body2 = decls + [ExprStmt(Assign("=", lv, a)), ExprStmt(Assign(op, lv, bi)), Return(lv)]
                    inputs2 = [({"a": x + 0.5, "b": y, "i": i}, g0) for (x, y) in vals for i in (0, 2)
                               for g0 in [inputs[0][1]]]
                    out.append(("assign:widen:%s:%s" % (kind, op), mod([fn("f", params2, ty, body2)], gl, structs), "f", inputs2))
    return out


def assign_as_value():
    out = []
    a, b, x, y = V("a", INT), V("b", INT), V("x", INT), V("y", INT)
    P = [(INT, "a"), (INT, "b")]
    inputs = [({"a": p, "b": q}, {}) for p, q in [(3, 4), (0, 7), (-2, 5), (9, 1)]]
    ginputs = [({"a": p, "b": q}, {"g": 17}) for p, q in [(3, 4), (0, 7), (-2, 5), (9, 1)]]
    h = fn("h", [(INT, "v")], INT, [Return(B("*", V("v", INT), I(3)))], exported=False)
    cases = {
        "return": [Decl(INT, "x"), Return(Assign("=", x, a))],
        "return_compound": [Decl(INT, "x", b), Return(Assign("+=", x, a))],
        "chain": [Decl(INT, "x"), Decl(INT, "y"), ExprStmt(Assign("=", y, Assign("=", x, a))), Return(B("+", B("*", y, I(10)), x))],
        "chain3": [Decl(INT, "x"), Decl(INT, "y"), Decl(INT, "z"),
                   ExprStmt(Assign("=", V("z", INT), Assign("=", y, Assign("=", x, B("+", a, b))))),
                   Return(B("+", B("+", V("z", INT), y), x))],
        "init": [Decl(INT, "x"), Decl(INT, "y", Assign("=", x, a)), Return(B("-", y, B("*", x, I(2))))],
        "init_compound": [Decl(INT, "x", b), Decl(INT, "y", Assign("*=", x, a)), Return(B("+", y, x))],
        "callarg": [Decl(INT, "x"), Decl(INT, "y", Call("h", [Assign("=", x, a)], INT, h)), Return(B("+", y, x))],
        "cond": [Decl(INT, "x"), If(Assign("=", x, a), Block([Return(B("+", x, I(100)))])), Return(x)],
        "index": [Decl(arr(INT, [4]), "t"), Decl(INT, "x"),
                  ExprStmt(Assign("=", Index(V("t", arr(INT, [4])), Assign("=", x, I(2)), INT), a)),
                  Return(B("+", Index(V("t", arr(INT, [4])), I(2), INT), x))],
        "while_cond": [Decl(INT, "x", I(-4)), Decl(INT, "n", I(0)),
                       While(Assign("+=", x, I(1)), Block([ExprStmt(Assign("+=", V("n", INT), B("*", x, a)))])),
                       Return(B("+", B("*", V("n", INT), I(10)), x))],
    }
    for k, body in cases.items():
        fs = [h] if k == "callarg" else []
        out.append(("assignvalue:%s" % k, mod(fs + [fn("f", P, INT, body)]), "f", inputs))
    g = V("g", INT)
    out.append(("assignvalue:global", mod([fn("f", P, INT, [Decl(INT, "y", Assign("=", g, a)), Return(B("+", y, g))])],
                                          [(INT, "g")]), "f", ginputs))
    return out


def affix_forms():
    out = []
    h = fn("h", [(INT, "v")], INT, [Return(B("*", V("v", INT), I(3)))], exported=False)
    for vkind in ("local", "param", "global", "localf"):
        ty = FLOAT if vkind == "localf" else INT
        name = {"local": "x", "param": "a", "global": "g", "localf": "x"}[vkind]
        x = V(name, ty)
        gl = [(INT, "g")] if vkind == "global" else []
        pre = [Decl(ty, "x", V("a", ty))] if vkind in ("local", "localf") else []
        params = [(ty, "a"), (INT, "b")]
        for op in ("++", "--"):
            for prefix in (True, False):
                ax = lambda: Affix(op, prefix, x)
                at = arr(INT, [8])
                positions = {
                    "stmt": [ExprStmt(ax()), Return(x)],
                    "init": [Decl(ty, "y", ax()), Return(B("+", B("*", V("y", ty), I(100)), x))],
                    "rhs": [Decl(ty, "y"), ExprStmt(Assign("=", V("y", ty), ax())), Return(B("+", B("*", V("y", ty), I(100)), x))],
                    "return": [Return(ax())],
                    "operand_l": [Decl(ty, "y", B("+", ax(), V("b", INT))), Return(B("+", B("*", V("y", ty), I(100)), x))],
                    "operand_r": [Decl(ty, "y", B("-", V("b", INT), ax())), Return(B("+", B("*", V("y", ty), I(100)), x))],
                    "cond": [Decl(INT, "r", I(0)), If(ax(), Block([ExprStmt(Assign("=", V("r", INT), I(1)))])),
                             Return(B("+", B("*", V("r", INT), I(100)), x))],
                    "twice": [ExprStmt(ax()), ExprStmt(ax()), Return(x)],
                }
                if ty == INT:
                    positions["callarg"] = [Decl(INT, "y", Call("h", [ax()], INT, h)), Return(B("+", B("*", V("y", INT), I(100)), x))]
                    positions["index"] = [Decl(at, "t"), ExprStmt(Assign("=", Index(V("t", at), I(3), INT), I(50))),
                                          ExprStmt(Assign("=", Index(V("t", at), I(4), INT), I(60))),
                                          ExprStmt(Assign("=", Index(V("t", at), I(2), INT), I(40))),
                                          Decl(INT, "y", Index(V("t", at), ax(), INT)),
                                          Return(B("+", B("*", V("y", INT), I(100)), x))]
                    positions["forinc"] = [Decl(INT, "n", I(0)),
                                           For(Decl(INT, "j", I(0)), B("<", V("j", INT), I(3)), ax(),
                                               Block([ExprStmt(Assign("+=", V("n", INT), I(1))),
                                                      ExprStmt(Affix("++", True, V("j", INT)))])),
                                           Return(B("+", B("*", V("n", INT), I(100)), x))]
                for pos, body in positions.items():
                    fs = [h] if pos == "callarg" else []
                    ins = []
                    for av in ([3, 0, -2, 7] if ty == INT else [3.0, 0.5, -2.0]):
                        if pos == "index" and av != 3:
                            continue
                        g = {"g": av} if vkind == "global" else {}
                        ins.append(({"a": av, "b": 10}, g))
                    out.append(("affix:%s:%s:%s:%s" % (vkind, op, "pre" if prefix else "post", pos),
                                mod(fs + [fn("f", params, ty, pre + body)], gl), "f", ins))
    return out


def _loop(kind, ctr, bound, body, flowsite):
    """a loop over ctr in [0,bound) of the given kind; `flowsite` statements run before the
    body and may break/continue; counters advance so that the loop terminates in every case"""
    c = V(ctr, INT)
    if kind == "for":
        return [For(Decl(INT, ctr, I(0)), B("<", c, bound), Affix("++", True, c), Block(flowsite + body))]
    inc = ExprStmt(Assign("=", c, B("+", c, I(1))))
    # `for` with parts of its header left out (each part is optional): the missing part is written in the body
    leave = If(B(">=", c, bound), Block([Break()]))
    if kind == "for_noinit":
        return [Decl(INT, ctr, I(0)), For(None, B("<", c, bound), Affix("++", True, c), Block(flowsite + body))]
    if kind == "for_nocond":
        return [For(Decl(INT, ctr, I(0)), None, Affix("++", True, c), Block([leave] + flowsite + body))]
    if kind == "for_nostep":
        return [For(Decl(INT, ctr, I(0)), B("<", c, bound), None, Block([inc] + flowsite + body))]
    if kind == "for_empty":
        return [Decl(INT, ctr, I(0)), For(None, None, None, Block([leave, inc] + flowsite + body))]
    # while/do: counter runs 1..bound inside the body (incremented first)
    if kind == "while":
        return [Decl(INT, ctr, I(0)), While(B("<", c, bound), Block([inc] + flowsite + body))]
    return [Decl(INT, ctr, I(0)), Do(Block([inc] + flowsite + body), B("<", c, bound))]


def flow_cases():
    out = []
    kinds = ("for", "while", "do", "for_noinit", "for_nocond", "for_nostep", "for_empty")
    n, k = V("n", INT), V("k", INT)
    P = [(INT, "n"), (INT, "k")]
    inputs = [({"n": a, "k": b}, {}) for a in (1, 3, 5) for b in (0, 1, 2, 4, 9)]
    acc = V("acc", INT)
    for kind in kinds:
        for flow in ("break", "continue", "none"):
            site = [] if flow == "none" else [If(B("==", V("i", INT), k), Block([Break() if flow == "break" else Continue()]))]
            body = [ExprStmt(Assign("=", acc, B("+", B("*", acc, I(3)), V("i", INT))))]
            stmts = [Decl(INT, "acc", I(0))] + _loop(kind, "i", n, body, site) + [Return(acc)]
            out.append(("flow:%s:%s" % (kind, flow), mod([fn("f", P, INT, stmts)]), "f", inputs))
    # two nested loops, flow statement in the inner or the outer loop: innermost binding
    for k0 in kinds:
        for k1 in kinds:
            for flow in ("break", "continue"):
                for where in ("inner", "outer_before", "outer_after"):
                    fl = Break() if flow == "break" else Continue()
                    c0, c1 = V("c0", INT), V("c1", INT)
                    inner_site = [If(B("==", V("j", INT), k), Block([fl]))] if where == "inner" else []
                    inner_body = [ExprStmt(Assign("=", c1, B("+", c1, I(1))))]
                    inner = _loop(k1, "j", n, inner_body, inner_site)
                    outer_site = [If(B("==", V("i", INT), k), Block([fl]))] if where == "outer_before" else []
                    after = [If(B("==", V("i", INT), k), Block([fl]))] if where == "outer_after" else []
                    outer_body = inner + after + [ExprStmt(Assign("=", c0, B("+", c0, I(1))))]
                    stmts = [Decl(INT, "c0", I(0)), Decl(INT, "c1", I(0))] + _loop(k0, "i", n, outer_body, outer_site) + \
                            [Return(B("+", B("*", c0, I(100)), c1))]
                    out.append(("flow2:%s:%s:%s:%s" % (k0, k1, flow, where), mod([fn("f", P, INT, stmts)]), "f", inputs))
    # break and continue mixed in one loop, flow inside else-branch, loop exit depending on data
    for kind in kinds:
        i = V("i", INT)
        site = [If(B("==", B("%", i, I(3)), I(1)), Block([Continue()]),
                   If(B(">", acc, k), Block([Break()])))]
        body = [ExprStmt(Assign("+=", acc, i))]
        stmts = [Decl(INT, "acc", I(0))] + _loop(kind, "i", B("*", n, I(3)), body, site) + [Return(acc)]
        out.append(("flowmix:%s" % kind, mod([fn("f", P, INT, stmts)]), "f", inputs))
        # data-dependent exit written in the loop
        x = V("x", INT)
        stmts = [Decl(INT, "x", B("+", B("*", n, I(7)), k)), Decl(INT, "steps", I(0)),
                 ] + _loop(kind, "i", I(40), [ExprStmt(Assign("=", x, B("/", x, I(2)))),
                                             ExprStmt(Assign("+=", V("steps", INT), I(1)))],
                           [If(B("<=", x, I(1)), Block([Break()]))]) + [Return(B("+", B("*", V("steps", INT), I(100)), x))]
        out.append(("flowdata:%s" % kind, mod([fn("f", P, INT, stmts)]), "f", inputs))
    return out


def reinit_cases():
    out = []
    n = V("n", INT)
    P = [(INT, "n")]
    inputs = [({"n": a}, {}) for a in (0, 1, 2, 4)]
    for ty, one in ((INT, I(1)), (FLOAT, F(0.5))):
        t, acc = V("t", ty), V("acc", ty)
        for kind in ("for", "while", "do"):
            body = [Decl(ty, "t"), ExprStmt(Assign("=", acc, B("+", acc, t))), ExprStmt(Assign("=", t, B("+", B("+", t, one), V("i", INT)))),
                    ExprStmt(Assign("=", acc, B("+", acc, t)))]
            stmts = [Decl(ty, "acc")] + _loop(kind, "i", n, body, []) + [Return(acc)]
            out.append(("reinit:%s:%s" % (ty, kind), mod([fn("f", P, ty, stmts)]), "f", inputs))
        at = arr(ty, [3])
        body = [Decl(at, "t"), ExprStmt(Assign("=", acc, B("+", acc, Index(V("t", at), I(1), ty)))),
                ExprStmt(Assign("=", Index(V("t", at), I(1), ty), B("+", one, V("i", INT))))]
        stmts = [Decl(ty, "acc")] + _loop("for", "i", n, body, []) + [Return(acc)]
        out.append(("reinit:%s:array" % ty, mod([fn("f", P, ty, stmts)]), "f", inputs))
    return out


def literal_cases():
    out = []
    ints = [("0", 0), ("7", 7), ("-7", -7), ("012", 10), ("0x1F", 31), ("0Xff", 255), ("2147483647", 2147483647),
            ("-2147483648", -2147483648), ("00", 0), ("0x0", 0), ("100", 100), ("+5", 5)]
    floats = [("1.5", 1.5), ("2.", 2.0), (".5", 0.5), ("1e1", 10.0), ("1.5f", 1.5), ("2.5e-1", 0.25), ("0.0", 0.0),
              ("3e+2", 300.0), ("1.25e2f", 125.0), ("10.", 10.0), ("0.125", 0.125), ("6E1", 60.0)]
    a = V("a", INT)
    inputs = [({"a": x}, {}) for x in (0, 3, -4)]
    for sp, v in ints:
        out.append(("lit:int:%s" % sp, mod([fn("f", [(INT, "a")], INT, [Return(IntLit(v, sp))])]), "f", inputs))
        if abs(v) < 1000:
            out.append(("lit:int+:%s" % sp, mod([fn("f", [(INT, "a")], INT, [Return(B("+", a, IntLit(v, sp)))])]), "f", inputs))
            out.append(("lit:int*:%s" % sp, mod([fn("f", [(INT, "a")], INT, [Return(B("-", B("*", IntLit(v, sp), a), IntLit(v, sp)))])]), "f", inputs))
    for sp, v in floats:
        out.append(("lit:float:%s" % sp, mod([fn("f", [(INT, "a")], FLOAT, [Return(FloatLit(v, sp))])]), "f", inputs))
        out.append(("lit:float+:%s" % sp, mod([fn("f", [(INT, "a")], FLOAT, [Return(B("+", a, FloatLit(v, sp)))])]), "f", inputs))
        out.append(("lit:float/:%s" % sp, mod([fn("f", [(INT, "a")], FLOAT, [Return(B("/", FloatLit(v, sp), F(4.0)))])]), "f", inputs))
    # same numeric value as int and float literal in one function (shared constant table)
    for v in (0, 1, 2, 3):
        body = [Decl(FLOAT, "x", B("/", IntLit(v), FloatLit(2.0))), Decl(INT, "y", B("/", B("+", a, IntLit(v)), IntLit(2))),
                Decl(FLOAT, "z", B("/", B("+", a, FloatLit(float(v))), IntLit(2))),
                Return(B("+", B("+", V("x", FLOAT), V("y", INT)), V("z", FLOAT)))]
        out.append(("lit:shared:%d" % v, mod([fn("f", [(INT, "a")], FLOAT, body)]), "f", inputs + [({"a": 5}, {}), ({"a": 7}, {})]))
        body = [Decl(INT, "y", B("/", B("+", a, IntLit(7)), IntLit(2))), Decl(FLOAT, "x", B("*", FloatLit(2.0), F(1.5))),
                Return(B("+", V("x", FLOAT), V("y", INT)))]
        out.append(("lit:shared2:%d" % v, mod([fn("f", [(INT, "a")], FLOAT, body)]), "f", inputs + [({"a": 5}, {})]))
    return out


def ifelse_cases():
    out = []
    a, b = V("a", INT), V("b", INT)
    P = [(INT, "a"), (INT, "b")]
    inputs = [({"a": x, "b": y}, {}) for x in (-1, 0, 1, 5) for y in (0, 2, 5)]
    r = V("r", INT)
    chain = If(B("<", a, I(0)), Block([ExprStmt(Assign("=", r, I(1)))]),
               If(B("==", a, I(0)), Block([ExprStmt(Assign("=", r, I(2)))]),
                  If(B(">", a, b), Block([ExprStmt(Assign("=", r, I(3)))]), Block([ExprStmt(Assign("=", r, I(4)))]))))
    out.append(("if:chain", mod([fn("f", P, INT, [Decl(INT, "r"), chain, Return(r)])]), "f", inputs))
    nested = If(a, Block([If(b, Block([ExprStmt(Assign("=", r, I(11)))]), Block([ExprStmt(Assign("=", r, I(10)))]))]),
                Block([If(b, Block([ExprStmt(Assign("=", r, I(1)))]))]))
    out.append(("if:nested", mod([fn("f", P, INT, [Decl(INT, "r", I(-5)), nested, Return(r)])]), "f", inputs))
    early = [If(B("<", a, b), Block([Return(I(1))])), If(B("==", a, b), Block([Return(I(2))])), Return(I(3))]
    out.append(("if:early", mod([fn("f", P, INT, early)]), "f", inputs))
    fl = [If(B("&&", B("<", a, b), B("!=", a, I(0))), Block([Return(F(1.5))]), Block([Return(B("/", a, F(2.0)))]))]
    out.append(("if:floatret", mod([fn("f", P, FLOAT, fl + [Return(F(0.0))])]), "f", inputs))
    fcond = [Decl(FLOAT, "x", B("*", a, F(0.5))), If(V("x", FLOAT), Block([Return(I(1))])), Return(I(0))]
    out.append(("if:floatcond", mod([fn("f", P, INT, fcond)]), "f", inputs))
    return out


def all_cases():
    cases = []
    for c in op_pairs():
        cases.append(c)
    for fam in (div_grid, compound_assign, assign_as_value, affix_forms, flow_cases, reinit_cases, literal_cases, ifelse_cases):
        for c in fam():
            cases.append(c + (None,))
    return cases
