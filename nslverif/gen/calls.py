"""Generator 2: call graphs (C03).  Nested, repeated, recursive (direct and mutual) calls with scalar,
vector and matrix parameters; every callee modifies its own parameters and locals after using them
(assignment, compound assignment, ++/--, swizzle and index writes); every caller folds *all* of its own
parameters and locals into a checksum after every call, so a clobbered caller variable changes the result
even when the program would not otherwise read it again; overloads by int/float/vector types return
distinct constants."""
import itertools

from ..lang import (arr, INT, FLOAT, IntLit, FloatLit, Var, Index, Swizzle, Bin, Assign, Affix, Call, Construct, Decl, ExprStmt,
                    Block, If, For, While, Return, Func, Module, vec, mat, is_vec, is_mat, is_scalar, mk_bin)

F2, F3, I2, I3, M3 = vec(FLOAT, 2), vec(FLOAT, 3), vec(INT, 2), vec(INT, 3), mat(FLOAT, 3, 3)
PTYPES = [INT, INT, FLOAT, FLOAT, F2, F3, I2, M3]


def V(n, t):
    return Var(n, t)


def I(v):
    return IntLit(v)


def F(v):
    return FloatLit(v)


def B(op, l, r):
    return mk_bin(op, l, r)


def checksum(e):
    """a FLOAT expression that depends on every component of e"""
    t = e.ty
    if t == FLOAT:
        return e
    if t == INT:
        return B("*", e, F(1.0))
    if is_vec(t):
        out = None
        for i in range(t[2]):
            term = B("*", Index(e, I(i), t[1]), F(float(i + 2)))
            out = term if out is None else B("+", out, term)
        return out
    if is_mat(t):
        out = None
        for r in range(t[2]):
            row = Index(e, I(r), vec(t[1], t[3]))
            term = B("*", Swizzle(row, "x"), F(float(r + 1)))
            term = B("+", term, B("*", Index(row, I(t[3] - 1), t[1]), F(0.5)))
            out = term if out is None else B("+", out, term)
        return out
    raise ValueError(t)


def value_of(rng, t, env):
    """an expression of type t, preferring variables of that type (argument aliasing)"""
    cands = [n for n, ty in env.items() if ty == t]
    if cands and rng.random() < 0.75:
        return V(rng.choice(cands), t)
    if t == INT:
        c = [n for n, ty in env.items() if ty == INT]
        if c and rng.random() < 0.5:
            return B("+", V(rng.choice(c), INT), I(rng.randint(1, 3)))
        return I(rng.randint(0, 5))
    if t == FLOAT:
        c = [n for n, ty in env.items() if ty in (INT, FLOAT)]
        if c and rng.random() < 0.5:
            n = rng.choice(c)
            return B("*", V(n, env[n]), F(0.5))
        return F(rng.choice([0.5, 1.5, 2.0]))
    if is_vec(t):
        return Construct(t, [value_of(rng, t[1], env) for _ in range(t[2])])
    if is_mat(t):
        rt = vec(t[1], t[3])
        return Construct(t, [value_of(rng, rt, env) for _ in range(t[2])])
    raise ValueError(t)


def mutate(rng, name, t):
    """a statement that changes variable `name` in place"""
    v = V(name, t)
    r = rng.random()
    if t == INT:
        if r < 0.3:
            return ExprStmt(Affix(rng.choice(["++", "--"]), rng.random() < 0.5, v))
        if r < 0.6:
            return ExprStmt(Assign(rng.choice(["+=", "-=", "*="]), v, I(rng.randint(2, 4))))
        return ExprStmt(Assign("=", v, B("+", B("*", v, I(2)), I(1))))
    if t == FLOAT:
        if r < 0.5:
            return ExprStmt(Assign(rng.choice(["+=", "-=", "*=", "/="]), v, F(rng.choice([0.5, 2.0, 4.0]))))
        return ExprStmt(Assign("=", v, B("-", F(100.0), v)))
    if is_vec(t):
        c, n = t[1], t[2]
        one = I(7) if c == INT else F(7.5)
        if r < 0.3:
            return ExprStmt(Assign("=", Index(v, I(rng.randrange(n)), c), one))
        if r < 0.6:
            letters = "xyzw"[:n]
            k = rng.randint(1, n)
            mask = "".join(rng.sample(letters, k))
            src = one if k == 1 else Construct(vec(c, k), [one] + [I(9) if c == INT else F(9.25)] * (k - 1))
            return ExprStmt(Assign("=", Swizzle(v, mask), src))
        if r < 0.8:
            return ExprStmt(Assign("*=", v, I(3) if c == INT else F(3.0)))
        return ExprStmt(Assign("=", v, Construct(t, [one] * n)))
    if is_mat(t):
        rt = vec(t[1], t[3])
        if r < 0.4:
            return ExprStmt(Assign("=", Index(Index(v, I(rng.randrange(t[2])), rt), I(rng.randrange(t[3])), t[1]), F(42.0)))
        if r < 0.7:
            return ExprStmt(Assign("=", Index(v, I(rng.randrange(t[2])), rt), Construct(rt, [F(5.0)] * t[3])))
        return ExprStmt(Assign("*=", v, F(2.0)))
    raise ValueError(t)


class CallGen:
    def __init__(self, rng, nfuncs=None, vectors=True):
        self.rng = rng
        self.nfuncs = nfuncs or rng.randint(2, 5)
        self.vectors = vectors
        self.funcs = []

    def ptypes(self):
        return PTYPES if self.vectors else [INT, FLOAT]

    def gen_module(self):
        rng = self.rng
        for i in range(self.nfuncs):
            self.funcs.append(self.gen_func("h%d" % i, exported=False, index=i))
        main = self.gen_func("f0", exported=True, index=self.nfuncs)
        return Module(funcs=self.funcs + [main])

    def gen_func(self, name, exported, index):
        rng = self.rng
        recursive = (not exported) and rng.random() < 0.35
        env = {}
        params = []
        if recursive:
            params.append((INT, "d"))
            env["d"] = INT
        for k in range(rng.randint(1, 3)):
            t = rng.choice(self.ptypes())
            n = "p%d" % k
            params.append((t, n))
            env[n] = t
        ret = rng.choice([INT, FLOAT, FLOAT, F3] if self.vectors else [INT, FLOAT])
        body = [Decl(FLOAT, "acc", F(0.0))]
        env_all = dict(env)
        for k in range(rng.randint(0, 2)):
            t = rng.choice(self.ptypes())
            n = "l%d" % k
            body.append(Decl(t, n, value_of(rng, t, env_all) if rng.random() < 0.8 else None))
            env_all[n] = t
        own = [n for n in env_all if n != "d"]
        # a nested aggregate local (rows are objects of their own): written before the calls, read after each call.
        # A callee or a recursive activation of this very function declares its own `grid`.
        grid = None
        if rng.random() < 0.5:
            gt = arr(INT, [2, 2])
            grid = V("grid", gt)
            body.append(Decl(gt, "grid"))
            seedv = [n for n in env_all if env_all[n] == INT]
            val = V(seedv[0], INT) if seedv else I(index + 3)
            body.append(ExprStmt(Assign("=", Index(Index(grid, I(index % 2), arr(INT, [2])), I(1), INT), B("+", val, I(index + 1)))))
            body.append(ExprStmt(Assign("=", Index(Index(grid, I(1 - index % 2), arr(INT, [2])), I(0), INT), I(40 + index))))
        callees = list(self.funcs[:index])
        sites = rng.randint(1, 3)
        this_fn_placeholder = Func(name, params, ret, None, exported)
        for s in range(sites):
            choices = list(callees)
            if recursive:
                choices.append(this_fn_placeholder)
            if not choices:
                break
            callee = rng.choice(choices)
            args = []
            for pt, pn in callee.params:
                if callee is this_fn_placeholder and pn == "d":
                    args.append(B("-", V("d", INT), I(1)))
                elif pn == "d":
                    args.append(I(rng.randint(0, 3)))
                else:
                    at = pt
                    r = rng.random()
                    env_nod = {k: v for k, v in env_all.items() if k != "d"}
                    if pt == FLOAT and r < 0.3:
                        at = INT
                    if pt == INT and r < 0.15:
                        # narrowing at the call boundary (non-negative literal: floor = truncation)
                        args.append(F(rng.choice([0.5, 2.5, 3.75, 7.0, 1.25])))
                        continue
                    if is_scalar(pt) and r > 0.8:
                        # a call nested in an argument (its own arguments may need conversions too)
                        inner = [c for c in callees if c is not callee and is_scalar(c.ret) and not any(n == "d" for _, n in c.params)
                                 and all(is_scalar(t) for t, _ in c.params)]
                        if inner:
                            c2 = rng.choice(inner)
                            a2 = []
                            for t2, _ in c2.params:
                                if t2 == INT and rng.random() < 0.4:
                                    a2.append(F(rng.choice([0.5, 2.5, 3.75, 6.0])))
                                else:
                                    a2.append(value_of(rng, t2, env_nod))
                            args.append(Call(c2.name, a2, c2.ret, c2))
                            continue
                    args.append(value_of(rng, at, env_nod))
            call = Call(callee.name, args, callee.ret, callee)
            rn = "r%d" % s
            use = [Decl(callee.ret, rn, call),
                   ExprStmt(Assign("=", V("acc", FLOAT), B("+", B("*", V("acc", FLOAT), F(0.5)), checksum(V(rn, callee.ret)))))]
            after = [ExprStmt(Assign("=", V("acc", FLOAT), B("+", V("acc", FLOAT), checksum(V(n, env_all[n]))))) for n in own]
            if grid is not None:
                g2 = arr(INT, [2])
                gsum = B("+", B("+", Index(Index(grid, I(0), g2), I(0), INT), B("*", Index(Index(grid, I(0), g2), I(1), INT), I(3))),
                         B("+", B("*", Index(Index(grid, I(1), g2), I(0), INT), I(5)), B("*", Index(Index(grid, I(1), g2), I(1), INT), I(7))))
                after.append(ExprStmt(Assign("=", V("acc", FLOAT), B("+", V("acc", FLOAT), B("*", gsum, F(1.0))))))
                after.append(ExprStmt(Assign("=", Index(Index(grid, I(1), g2), I(1), INT), B("+", Index(Index(grid, I(1), g2), I(1), INT), I(1)))))
            stmts = use + after
            if callee is this_fn_placeholder:
                body.append(If(B(">", V("d", INT), I(0)), Block(stmts)))
            elif rng.random() < 0.25:
                i = "i%d" % s
                body.append(For(Decl(INT, i, I(0)), B("<", V(i, INT), I(2)), Affix("++", True, V(i, INT)), Block(stmts)))
            else:
                body.extend(stmts)
        # the function now modifies its own parameters and locals (invisible to any caller)
        for n in own:
            if rng.random() < 0.8:
                body.append(mutate(rng, n, env_all[n]))
        for n in own:
            if rng.random() < 0.5:
                body.append(ExprStmt(Assign("=", V("acc", FLOAT), B("+", V("acc", FLOAT), checksum(V(n, env_all[n]))))))
        if ret == FLOAT:
            body.append(Return(V("acc", FLOAT)))
        elif ret == INT:
            ints = [n for n in own if env_all[n] == INT]
            body.append(Return(B("+", V(ints[0], INT), I(index)) if ints else I(index + 10)))
        else:
            body.append(Return(Construct(F3, [V("acc", FLOAT), F(float(index)), B("*", V("acc", FLOAT), F(0.25))])))
        f = Func(name, params, ret, Block(body), exported)
        # fix up recursive calls to point at the finished function
        if recursive:
            _retarget(f.body, this_fn_placeholder, f)
        return f


def _retarget(node, old, new):
    from ..lang import N
    if isinstance(node, Call) and node.fn is old:
        node.fn = new
    if isinstance(node, list):
        for x in node:
            _retarget(x, old, new)
        return
    if isinstance(node, N):
        for k in node.__slots__:
            if k == "fn":
                continue
            v = getattr(node, k)
            if isinstance(v, (N, list)):
                _retarget(v, old, new)


# ------------------------------------------------------------------- directed
def directed_cases():
    """(name, Module, [(fname, inputs)])"""
    out = []
    n = V("n", INT)
    # factorial, parameter decremented in place before/after the call
    fact = Func("fact", [(INT, "n")], INT, Block([
        If(B("<=", n, I(1)), Block([Return(I(1))])),
        Decl(INT, "k", n),
        ExprStmt(Affix("--", True, n)),
        Decl(INT, "r", Call("fact", [n], INT, None)),
        Return(B("*", V("r", INT), V("k", INT)))]), False)
    fact.body.stmts[3].init.fn = fact
    main = Func("f", [(INT, "n")], INT, Block([Decl(INT, "a", Call("fact", [n], INT, fact)), Return(B("+", B("*", V("a", INT), I(100)), n))]), True)
    out.append(("recursion:factorial", Module(funcs=[fact, main]), [("f", [({"n": k}, {}) for k in (0, 1, 3, 5, 7)])]))
    # fibonacci: two recursive calls, the parameter is read between and after them
    fib = Func("fib", [(INT, "n")], INT, Block([
        If(B("<", n, I(2)), Block([Return(n)])),
        Decl(INT, "a", Call("fib", [B("-", n, I(1))], INT, None)),
        Decl(INT, "b", Call("fib", [B("-", n, I(2))], INT, None)),
        Return(B("+", B("+", V("a", INT), V("b", INT)), B("*", n, I(0))))]), False)
    fib.body.stmts[1].init.fn = fib
    fib.body.stmts[2].init.fn = fib
    main = Func("f", [(INT, "n")], INT, Block([Return(Call("fib", [n], INT, fib))]), True)
    out.append(("recursion:fibonacci", Module(funcs=[fib, main]), [("f", [({"n": k}, {}) for k in (0, 1, 2, 5, 9)])]))
    # mutual recursion even/odd with a modified parameter and a local that must survive the call
    ev = Func("is_even", [(INT, "n")], INT, None, False)
    od = Func("is_odd", [(INT, "n")], INT, None, False)
    ev.body = Block([If(B("==", n, I(0)), Block([Return(I(1))])), Decl(INT, "keep", B("*", n, I(3))),
                     Decl(INT, "r", Call("is_odd", [B("-", n, I(1))], INT, od)), ExprStmt(Assign("+=", n, I(50))),
                     Return(B("+", V("r", INT), B("-", V("keep", INT), B("*", B("-", n, I(50)), I(3)))))])
    od.body = Block([If(B("==", n, I(0)), Block([Return(I(0))])), Decl(INT, "keep", B("+", n, I(7))),
                     Decl(INT, "r", Call("is_even", [B("-", n, I(1))], INT, ev)), ExprStmt(Affix("++", False, n)),
                     Return(B("+", V("r", INT), B("-", V("keep", INT), B("+", n, I(6)))))])
    main = Func("f", [(INT, "n")], INT, Block([Return(B("+", B("*", Call("is_even", [n], INT, ev), I(10)), Call("is_odd", [n], INT, od)))]), True)
    out.append(("recursion:mutual", Module(funcs=[ev, od, main]), [("f", [({"n": k}, {}) for k in (0, 1, 2, 5, 8)])]))
    # by-value: callee overwrites every kind of parameter; caller reads its variables afterwards
    for t, mk, inp in ((INT, lambda: I(99), 5), (FLOAT, lambda: F(99.5), 2.5), (F3, lambda: Construct(F3, [F(9.0), F(8.0), F(7.0)]), [1.5, 2.5, 3.5]),
                       (I2, lambda: Construct(I2, [I(9), I(8)]), [3, 4]),
                       (M3, lambda: Construct(M3, [Construct(F3, [F(9.0), F(8.0), F(7.0)])] * 3), [[1.0, 2.0, 3.0], [4.0, 5.0, 6.0], [7.0, 8.0, 9.0]])):
        for how in ("assign", "element", "compound"):
            x = V("x", t)
            if how == "assign":
                w = ExprStmt(Assign("=", x, mk()))
            elif how == "compound":
                w = ExprStmt(Assign("*=", x, I(3) if t in (INT, I2) else F(3.0)))
            else:
                if is_scalar(t):
                    w = ExprStmt(Affix("++", True, x))
                elif is_vec(t):
                    w = ExprStmt(Assign("=", Swizzle(x, "y"), I(77) if t[1] == INT else F(77.0)))
                else:
                    w = ExprStmt(Assign("=", Index(Index(x, I(1), F3), I(1), FLOAT), F(77.0)))
            callee = Func("g", [(t, "x")], FLOAT, Block([w, Return(checksum(x))]), False)
            for site in ("param", "local", "both"):
                p = V("p", t)
                body = [Decl(t, "q", p)]
                if site in ("param", "both"):
                    body.append(Decl(FLOAT, "r1", Call("g", [p], FLOAT, callee)))
                if site in ("local", "both"):
                    body.append(Decl(FLOAT, "r2", Call("g", [V("q", t)], FLOAT, callee)))
                body.append(Return(B("+", B("*", checksum(p), F(1000.0)), checksum(V("q", t)))))
                main = Func("f", [(t, "p")], FLOAT, Block(body), True)
                out.append(("byvalue:%s:%s:%s" % (str(t), how, site), Module(funcs=[callee, main]), [("f", [({"p": inp}, {})])]))
    # caller's other arguments and locals survive calls with different arity
    a, b, c = V("a", INT), V("b", FLOAT), V("c", F2)
    g1 = Func("g1", [(INT, "x")], INT, Block([ExprStmt(Assign("=", V("x", INT), I(1000))), Return(V("x", INT))]), False)
    g3 = Func("g3", [(FLOAT, "x"), (INT, "y"), (F2, "z")], FLOAT,
              Block([ExprStmt(Assign("=", V("x", FLOAT), F(1.0))), ExprStmt(Assign("=", V("y", INT), I(2))), ExprStmt(Assign("=", Swizzle(V("z", F2), "x"), F(3.0))),
                     Return(B("+", B("+", V("x", FLOAT), V("y", INT)), checksum(V("z", F2))))]), False)
    main = Func("f", [(INT, "a"), (FLOAT, "b"), (F2, "c")], FLOAT, Block([
        Decl(INT, "l", B("+", a, I(1))),
        Decl(INT, "u", Call("g1", [a], INT, g1)),
        Decl(FLOAT, "w", Call("g3", [b, a, c], FLOAT, g3)),
        Decl(INT, "u2", Call("g1", [V("l", INT)], INT, g1)),
        Return(B("+", B("+", B("+", B("*", a, F(1.0)), B("*", b, F(10.0))), B("*", checksum(c), F(100.0))), B("*", V("l", INT), F(1000.0))))]), True)
    out.append(("arity-mix", Module(funcs=[g1, g3, main]), [("f", [({"a": 3, "b": 1.5, "c": [2.0, 4.0]}, {}), ({"a": -2, "b": 0.5, "c": [1.0, 8.0]}, {})])]))
    # overloads: distinct constants, static argument types select
    types = [INT, FLOAT, F2, F3, I2]
    ov = [Func("pick", [(t, "x")], INT, Block([Return(I(101 + i))]), False) for i, t in enumerate(types)]
    ov2 = [Func("pick", [(t, "x"), (u, "y")], INT, Block([Return(I(201 + 10 * i + j))]), False)
           for i, t in enumerate((INT, FLOAT)) for j, u in enumerate((INT, FLOAT))]
    calls = []
    mains = []
    for i, t in enumerate(types):
        mains.append(Func("c%d" % i, [(t, "v")], INT, Block([Return(Call("pick", [V("v", t)], INT, ov[i]))]), True))
    k = 0
    for i, t in enumerate((INT, FLOAT)):
        for j, u in enumerate((INT, FLOAT)):
            mains.append(Func("d%d" % k, [(t, "v"), (u, "w")], INT, Block([Return(Call("pick", [V("v", t), V("w", u)], INT, ov2[2 * i + j]))]), True))
            k += 1
    vals = {INT: 4, FLOAT: 2.5, F2: [1.0, 2.0], F3: [1.0, 2.0, 3.0], I2: [1, 2]}
    for f in mains:
        calls.append((f.name, [({n: vals[t] for t, n in f.params}, {})]))
    for order in (ov + ov2, list(reversed(ov + ov2)), ov2 + ov):
        out.append(("overloads", Module(funcs=list(order) + mains), calls))
    # overloads whose parameter counts differ by one, called so that the *other* arity would fit the supplied (or the
    # leading) arguments better: the argument count must decide first
    s1 = Func("sc", [(FLOAT, "x")], INT, Block([Return(I(301))]), False)
    s2 = Func("sc", [(INT, "x"), (INT, "y")], INT, Block([Return(I(302))]), False)
    t1 = Func("tc", [(INT, "x")], INT, Block([Return(I(401))]), False)
    t2 = Func("tc", [(FLOAT, "x"), (FLOAT, "y")], INT, Block([Return(I(402))]), False)
    u0 = Func("uc", [], INT, Block([Return(I(500))]), False)
    u1 = Func("uc", [(F2, "x")], INT, Block([Return(I(501))]), False)
    am = [Func("a0", [(INT, "v")], INT, Block([Return(Call("sc", [V("v", INT)], INT, s1))]), True),
          Func("a1", [(INT, "v"), (INT, "w")], INT, Block([Return(Call("sc", [V("v", INT), V("w", INT)], INT, s2))]), True),
          Func("a2", [(INT, "v"), (INT, "w")], INT, Block([Return(Call("tc", [V("v", INT), V("w", INT)], INT, t2))]), True),
          Func("a3", [(INT, "v")], INT, Block([Return(Call("tc", [V("v", INT)], INT, t1))]), True),
          Func("a4", [(F2, "v")], INT, Block([Return(B("+", Call("uc", [], INT, u0), Call("uc", [V("v", F2)], INT, u1)))]), True)]
    # one module per overloaded name and call, so that a rejection of one call cannot hide what happens to another
    for fam, ovs, callers in (("sc", [s1, s2], am[0:2]), ("tc", [t1, t2], am[2:4]), ("uc", [u0, u1], am[4:5])):
        for caller in callers:
            for order in (ovs, list(reversed(ovs))):
                out.append(("overloads-arity:%s:%s" % (fam, caller.name), Module(funcs=list(order) + [caller]),
                            [(caller.name, [({n: vals[t] for t, n in caller.params}, {})])]))
    # a parameter given by its type only still takes its position: the named parameters around it bind by position, in the
    # callee's reads and in its writes
    a, c = V("a", INT), V("c", INT)
    b_ = V("b", INT)
    un = [
        ("second", Func("second", [(INT, None), (INT, "b")], INT, Block([ExprStmt(Assign("=", b_, B("+", B("*", b_, I(2)), I(1)))), Return(b_)]), False),
         lambda fn: Call("second", [a, c], INT, fn)),
        ("first", Func("first", [(INT, "b"), (INT, None)], INT, Block([ExprStmt(Assign("+=", b_, I(5))), Return(b_)]), False),
         lambda fn: Call("first", [a, c], INT, fn)),
        ("third", Func("third", [(FLOAT, None), (INT, "b"), (INT, "k")], INT,
                       Block([ExprStmt(Assign("+=", V("k", INT), b_)), ExprStmt(Assign("=", b_, I(0))), Return(B("+", B("*", V("k", INT), I(10)), b_))]), False),
         lambda fn: Call("third", [F(9.5), a, c], INT, fn)),
        ("middle", Func("middle", [(INT, "b"), (FLOAT, None), (INT, "k")], INT,
                        Block([ExprStmt(Affix("++", True, V("k", INT))), Return(B("-", B("*", b_, I(100)), V("k", INT)))]), False),
         lambda fn: Call("middle", [a, F(0.5), c], INT, fn)),
        ("scale", Func("scale", [(F2, None), (FLOAT, "s")], FLOAT,
                       Block([ExprStmt(Assign("=", V("s", FLOAT), B("*", V("s", FLOAT), F(0.5)))), Return(V("s", FLOAT))]), False),
         lambda fn: Call("scale", [Construct(F2, [F(100.0), F(200.0)]), B("*", c, F(1.5))], FLOAT, fn)),
    ]
    for nm, fn_, mk in un:
        call = mk(fn_)
        main = Func("f", [(INT, "a"), (INT, "c")], FLOAT if call.ty == FLOAT else INT,
                    Block([Decl(call.ty, "r", call), Return(B("+", B("+", B("*", V("r", call.ty), I(10000)), B("*", a, I(100))), c))]), True)
        out.append(("unnamed-parameter:%s" % nm, Module(funcs=[fn_, main]), [("f", [({"a": 3, "c": 7}, {}), ({"a": -2, "c": 40}, {})])]))
    return out
