"""Generator 7: a multi-function program partitioned into modules that import each other (C16).

Functions h0..hk form an acyclic call graph (a function only calls lower-numbered ones); they are cut into
contiguous ranges = library modules m0..; on top sit 1-2 root modules with exported functions that call into the
libraries (and have the globals).  A module imports exactly the modules that define its callees, so every DAG shape
(single, chain, fan-in, diamond) arises from the call graph.  Import statements are placed first, after other
items, or several in a row."""
from ..lang import (INT, FLOAT, IntLit, FloatLit, Var, Bin, Assign, Call, Decl, ExprStmt, Block, If, Return, Func, Module,
                    vec, mk_bin, module_tokens, join_tokens, func_tokens, type_str)

F2 = vec(FLOAT, 2)


def V(n, t):
    return Var(n, t)


def B(op, l, r):
    return mk_bin(op, l, r)


class Split:
    def __init__(self):
        self.libs = []        # [(name, [Func], [import names])]
        self.roots = []       # [(name, [Func], [import names], globals)]
        self.union = None     # lang.Module with everything (the single-module oracle)
        self.layouts = {}     # name -> source text


def gen(rng, shape=None):
    nlib_funcs = rng.randint(2, 6)
    funcs = []
    for i in range(nlib_funcs):
        pt = rng.choice([INT, FLOAT, INT, F2])
        params = [(pt, "a")] + ([(INT, "b")] if rng.random() < 0.5 else [])
        a = V("a", pt)
        body = []
        if pt == F2:
            acc = B("+", B("*", Var("a", F2), FloatLit(2.0)), Var("a", F2))
            body.append(Decl(F2, "t", acc))
            expr = B("+", _sw(V("t", F2), "x"), _sw(V("t", F2), "y"))
            ret = FLOAT
        else:
            expr = B("+", B("*", a, IntLit(i + 2)), IntLit(i)) if pt == INT else B("+", B("*", a, FloatLit(0.5)), FloatLit(float(i)))
            ret = pt
        # calls into lower-numbered functions
        ncalls = rng.randint(0, min(2, i))
        for c in rng.sample(range(i), ncalls) if i else []:
            callee = funcs[c]
            args = []
            for t, n in callee.params:
                if t == INT:
                    args.append(IntLit(rng.randint(1, 4)) if pt != INT or rng.random() < 0.3 else a)
                elif t == FLOAT:
                    args.append(FloatLit(1.5) if pt == F2 or rng.random() < 0.3 else a)
                else:
                    args.append(_mkf2(a, pt))
            call = Call(callee.name, args, callee.ret, callee)
            expr = B("+", expr, call)
            if ret == INT and callee.ret == FLOAT:
                ret = FLOAT
        exported = rng.random() < 0.4
        funcs.append(Func("h%d" % i, params, ret, Block(body + [Return(expr)]), exported))
    # cut into library modules
    nlibs = rng.randint(1, min(3, nlib_funcs))
    cuts = sorted(rng.sample(range(1, nlib_funcs), nlibs - 1)) if nlibs > 1 else []
    ranges = []
    prev = 0
    for c in cuts + [nlib_funcs]:
        ranges.append(list(range(prev, c)))
        prev = c
    sp = Split()
    owner = {}
    # module names: flat, or the same base name in different directories (a loader or linker that identifies a
    # module by anything coarser than the import string confuses them)
    scheme = rng.choice(["flat", "dirs", "dirs-mixed", "affixes", "affixes2"])
    if scheme == "flat":
        libname = lambda li: "m%d" % li
    elif scheme == "dirs":
        libname = lambda li: "pkg%d/util" % li
    elif scheme == "affixes":
        # names that differ only by trailing characters out of ".nslir" / by a prefix of each other
        libname = lambda li: ("color", "colors", "colorsl")[li]
    elif scheme == "affixes2":
        libname = lambda li: ("util", "utils", "util_s")[li]
    else:
        libname = lambda li: ("util" if li == 0 else "sub%d/util" % li)
    for li, idxs in enumerate(ranges):
        for i in idxs:
            owner[funcs[i].name] = libname(li)
    for li, idxs in enumerate(ranges):
        fs = [funcs[i] for i in idxs]
        imps = sorted({owner[c] for f in fs for c in _callees(f)} - {libname(li)})
        sp.libs.append((libname(li), fs, imps))
    # root modules
    nroots = rng.choice([1, 1, 2])
    root_funcs_all = []
    for ri in range(nroots):
        gl = [(INT, "g%d" % ri)] if rng.random() < 0.6 else []
        fs = []
        for k in range(rng.randint(1, 2)):
            x = V("x", INT)
            expr = B("*", x, IntLit(1))
            for c in rng.sample(range(nlib_funcs), rng.randint(1, min(3, nlib_funcs))):
                callee = funcs[c]
                args = [(x if t == INT else (B("*", x, FloatLit(0.5)) if t == FLOAT else _mkf2(x, INT))) for t, n in callee.params]
                expr = B("+", expr, Call(callee.name, args, callee.ret, callee))
            body = []
            if gl:
                g = V(gl[0][1], INT)
                body.append(ExprStmt(Assign("=", g, B("+", g, x))))
                expr = B("+", expr, g)
            fs.append(Func("r%d_%d" % (ri, k), [(INT, "x")], expr.ty, Block(body + [Return(expr)]), True))
        imps = sorted({owner[c] for f in fs for c in _callees(f)})
        sp.roots.append(("top%d" % ri, fs, imps, gl))
        root_funcs_all.extend(fs)
    # now and then one more root that imports nothing at all (added late to a linker, nothing is pending for it)
    if rng.random() < 0.4:
        x = V("x", INT)
        sf = Func("solo_f", [(INT, "x")], INT, Block([Return(B("+", B("*", x, IntLit(rng.randint(2, 9))), IntLit(1)))]), True)
        sp.roots.append(("solo", [sf], [], []))
        root_funcs_all.append(sf)
    # one function name overloaded across module boundaries: the library declares ov(int), a root declares ov(float)
    # and calls the name with an int (exact match = the imported overload) and with a float (its own)
    extra = []
    if rng.random() < 0.5:
        ov_i = Func("ov", [(INT, "a")], INT, Block([Return(B("+", B("*", V("a", INT), IntLit(7)), IntLit(1000)))]), False)
        ov_f = Func("ov", [(FLOAT, "a")], FLOAT, Block([Return(B("+", B("*", V("a", FLOAT), FloatLit(0.5)), FloatLit(2000.0)))]), False)
        lname, lfs, limps = sp.libs[0]
        lfs.append(ov_i)
        rname, rfs, rimps, rgl = sp.roots[0]
        x = V("x", INT)
        caller = Func("ovcall", [(INT, "x")], FLOAT, Block([Return(B("+", Call("ov", [x], INT, ov_i), Call("ov", [B("*", x, FloatLit(1.5))], FLOAT, ov_f)))]), True)
        rfs.insert(0, ov_f)
        rfs.append(caller)
        if lname not in rimps:
            rimps.append(lname)
            rimps.sort()
        extra = [ov_i, ov_f, caller]
        root_funcs_all.append(caller)
        funcs = funcs + [ov_i, ov_f]
    # several overloads of one name inside one imported library (either declaration order), each called from a root
    # with the argument type that selects it: the importer must see every overload, not one per name
    if rng.random() < 0.5:
        wt_i = Func("wt", [(INT, "a")], INT, Block([Return(B("+", B("*", V("a", INT), IntLit(3)), IntLit(700)))]), False)
        wt_f = Func("wt", [(FLOAT, "a")], FLOAT, Block([Return(B("+", B("*", V("a", FLOAT), FloatLit(0.25)), FloatLit(90000.0)))]), False)
        wt_v = Func("wt", [(F2, "a")], FLOAT, Block([Return(B("+", _sw(V("a", F2), "y"), FloatLit(500000.0)))]), False)
        ovs = [wt_i, wt_f] + ([wt_v] if rng.random() < 0.5 else [])
        rng.shuffle(ovs)
        lname, lfs, limps = rng.choice(sp.libs)
        lfs.extend(ovs)
        rname, rfs, rimps, rgl = sp.roots[-1]
        x = V("x", INT)
        e = B("+", Call("wt", [x], INT, wt_i), Call("wt", [B("*", x, FloatLit(0.5))], FLOAT, wt_f))
        if wt_v in ovs:
            e = B("+", e, Call("wt", [_mkf2(x, INT)], FLOAT, wt_v))
        caller = Func("wtcall", [(INT, "x")], FLOAT, Block([Return(e)]), True)
        rfs.append(caller)
        if lname not in rimps:
            rimps.append(lname)
            rimps.sort()
        root_funcs_all.append(caller)
        funcs = funcs + ovs
    sp.union = Module(globals=[g for _, _, _, gl in sp.roots for g in gl], funcs=funcs + root_funcs_all)
    # source texts with import placement variants
    for name, fs, imps in sp.libs:
        sp.layouts[name] = _text(rng, imps, [], fs)
    for name, fs, imps, gl in sp.roots:
        sp.layouts[name] = _text(rng, imps, gl, fs)
    return sp


def _sw(v, m):
    from ..lang import Swizzle
    return Swizzle(v, m)


def _mkf2(a, t):
    from ..lang import Construct
    if t == F2:
        return a
    return Construct(F2, [a, FloatLit(1.0) if t == FLOAT else IntLit(2)])


def _callees(f):
    out = set()

    def walk(n):
        from ..lang import N
        if isinstance(n, Call):
            out.add(n.name)
        if isinstance(n, list):
            for x in n:
                walk(x)
        elif isinstance(n, N):
            for k in n.__slots__:
                if k == "fn":
                    continue
                v = getattr(n, k)
                if isinstance(v, (N, list)):
                    walk(v)
    walk(f.body)
    return out


def _text(rng, imps, gl, fs):
    """module text; the imports go first, or after the first other item, or are spread"""
    items = []
    for t, n in gl:
        items.append(" ".join([type_str(t), n, ";"]))
    for f in fs:
        toks = []
        func_tokens(f, toks)
        items.append(join_tokens(toks).strip())
    imports = ['import "%s";' % i for i in imps]
    mode = rng.choice(["first", "first", "after-first", "spread", "last"])
    if not imports or mode == "first":
        parts = imports + items
    elif mode == "after-first":
        parts = items[:1] + imports + items[1:]
    elif mode == "last":
        parts = items + imports
    else:
        parts = []
        imps_left = list(imports)
        for it in items:
            if imps_left and rng.random() < 0.6:
                parts.append(imps_left.pop(0))
            parts.append(it)
        parts = imps_left[:0] + parts + imps_left
    return "\n".join(parts) + "\n", mode


def directed_diamond(names=("lib", "mid")):
    """lib {h0}; mid {h1 -> h0} imports lib; top0 imports lib and mid (a diamond); top1 imports mid only (a chain)"""
    a = V("a", INT)
    h0 = Func("h0", [(INT, "a")], INT, Block([Return(B("+", B("*", a, IntLit(3)), IntLit(1)))]), False)
    h1 = Func("h1", [(INT, "a")], INT, Block([Return(B("+", Call("h0", [B("+", a, IntLit(2))], INT, h0), IntLit(10)))]), True)
    x = V("x", INT)
    r0 = Func("r0_0", [(INT, "x")], INT, Block([Return(B("+", Call("h0", [x], INT, h0), Call("h1", [x], INT, h1)))]), True)
    r1 = Func("r1_0", [(INT, "x")], INT, Block([Return(B("*", Call("h1", [x], INT, h1), IntLit(2)))]), True)
    sp = Split()
    sp.libs = [(names[0], [h0], []), (names[1], [h1], [names[0]])]
    sp.roots = [("top0", [r0], sorted(names), []), ("top1", [r1], [names[1]], [])]
    sp.union = Module(funcs=[h0, h1, r0, r1])
    import random as _r
    rng = _r.Random(0)
    for name, fs, imps in sp.libs:
        sp.layouts[name] = _text(rng, imps, [], fs)
    for name, fs, imps, gl in sp.roots:
        sp.layouts[name] = _text(rng, imps, gl, fs)
    return sp
