"""Generator 3: programs over vectors (float/int, 2-4 components) and float3x3 / float4x4 matrices,
strictly well typed by the rules of C09, evaluable by RefSem.

Storage: locals, parameters, globals of scalar / vector / matrix type, 1-D arrays of vectors, structs with
scalar and vector fields.  Expressions: constructors from scalars and smaller vectors, element-wise + -,
comparisons, vector/matrix times/divided by scalar, matrix product, matrix * vector, row and element
selection with constant and dynamic (in range by construction) indices, swizzle reads in any order and
with repetition.  Statements: assignment to whole values, through an index, a swizzle (non-repeating
mask) or a nested chain (m[i][j], arr[i].xz, s.v.y), if/else, bounded for loops, calls into helpers that
take and return vectors/matrices and modify their own parameters.
"""
from ..lang import (INT, FLOAT, VOID, IntLit, FloatLit, Var, Index, Field, Swizzle, Bin, Assign, Affix, Call, Construct,
                    Decl, ExprStmt, Block, If, For, Return, Func, Module, vec, mat, arr, struct_t, is_vec, is_mat,
                    is_scalar, is_arr, is_struct, promote, bin_type, CMP)

VEC_TYPES = [vec(FLOAT, 2), vec(FLOAT, 3), vec(FLOAT, 4), vec(INT, 2), vec(INT, 3), vec(INT, 4)]
MAT_TYPES = [mat(FLOAT, 3, 3), mat(FLOAT, 4, 4)]
XYZW, RGBA = "xyzw", "rgba"
NAMES = ["a", "b", "c", "d", "e", "k", "m", "n", "p", "q", "s", "t", "u", "v", "w", "lo", "hi", "pos", "col", "dir"]
F_LITS = [0.0, 0.5, 1.0, 1.5, 2.0, 3.0, 0.25, 4.0, 2.5]
I_LITS = [0, 1, 2, 3, 4, 5, 7, -1, -2, 10]


class VCfg:
    def __init__(self, **kw):
        self.max_depth = 3
        self.max_stmts = 10
        self.n_helpers = 2
        self.matrices = True
        self.arrays = True
        self.structs = True
        self.globals = True
        self.loops = True
        self.calls = True
        self.int_vectors = True
        self.mat_vec_product = True
        self.mixed_components = True     # float3 + int3 (needs an implicit vector conversion)
        for k, v in kw.items():
            if not hasattr(self, k):
                raise AttributeError(k)
            setattr(self, k, v)


class VecGen:
    def __init__(self, rng, cfg=None):
        self.rng = rng
        self.cfg = cfg or VCfg()
        self.module = Module()
        self.helpers = []
        self.counter = 0
        self.readonly = set()
        self.nonneg = {}       # loop counter name -> exclusive upper bound

    # ----------------------------------------------------------------- types
    def vec_types(self):
        return [t for t in VEC_TYPES if self.cfg.int_vectors or t[1] == FLOAT]

    def rand_prim(self, scalars=True):
        r = self.rng.random()
        if scalars and r < 0.3:
            return self.rng.choice([INT, FLOAT])
        if self.cfg.matrices and r < 0.45:
            return self.rng.choice(MAT_TYPES)
        return self.rng.choice(self.vec_types())

    def rand_storage(self):
        r = self.rng.random()
        if self.cfg.arrays and r < 0.12:
            return arr(self.rng.choice(self.vec_types() + [FLOAT, INT]), [self.rng.randint(1, 3)])
        if self.cfg.structs and self.module.structs and r < 0.22:
            return struct_t("S0")
        return self.rand_prim()

    def fresh(self, env):
        for _ in range(30):
            n = self.rng.choice(NAMES)
            if n not in env:
                return n
        self.counter += 1
        return "v%d" % self.counter

    # ------------------------------------------------------------- top level
    def gen_module(self):
        rng, m = self.rng, self.module
        if self.cfg.structs and rng.random() < 0.5:
            fields = [(rng.choice([FLOAT, INT]), "m0"), (rng.choice(self.vec_types()), "m1")]
            if rng.random() < 0.4:
                fields.append((rng.choice(self.vec_types()), "m2"))
            m.structs.append(("S0", fields))
        genv = {}
        if self.cfg.globals:
            for i in range(rng.randint(0, 2)):
                t = self.rand_storage()
                m.globals.append((t, "g%d" % i))
                genv["g%d" % i] = t
        self.genv = genv
        if self.cfg.calls:
            for i in range(rng.randint(0, self.cfg.n_helpers)):
                self.gen_helper("h%d" % i)
        self.gen_export("f0")
        return m

    def gen_helper(self, name):
        """pure helper (no global access) that modifies its own parameters and returns a primitive"""
        rng = self.rng
        params = []
        env = {}
        for i in range(rng.randint(1, 3)):
            t = self.rand_prim()
            n = self.fresh(env)
            env[n] = t
            params.append((t, n))
        ret = self.rand_prim()
        saved, self.genv = self.genv, {}
        body = []
        for _ in range(rng.randint(1, 4)):
            s = self.gen_simple_stmt(env, allow_calls=False)
            if s is not None:
                body.append(s)
        body.append(Return(self.expr(ret, env, 1, allow_calls=False)))
        self.genv = saved
        f = Func(name, params, ret, Block(body), False)
        self.module.funcs.append(f)
        self.helpers.append(f)

    def gen_export(self, name):
        rng = self.rng
        env = dict(self.genv)
        params = []
        for i in range(rng.randint(1, 4)):
            t = self.rand_prim()
            n = self.fresh(env)
            env[n] = t
            params.append((t, n))
        ret = self.rand_prim()
        self.budget = rng.randint(3, self.cfg.max_stmts)
        body = self.gen_block(env, 0)
        body.append(Return(self.expr(ret, env, 0)))
        self.module.funcs.append(Func(name, params, ret, Block(body), True))

    # ------------------------------------------------------------ statements
    def gen_block(self, env, nest):
        out = []
        n = self.rng.randint(1, 5)
        for _ in range(n):
            if self.budget <= 0:
                break
            self.budget -= 1
            s = self.gen_stmt(env, nest)
            if s is None:
                continue
            out.extend(s if isinstance(s, list) else [s])
        return out

    def gen_stmt(self, env, nest):
        rng = self.rng
        r = rng.random()
        if r < 0.25:
            return self.gen_decl(env)
        if r < 0.75:
            return self.gen_simple_stmt(env)
        if nest < 2 and r < 0.87:
            c = self.cond(env)
            then = Block(self.gen_block(dict(env), nest + 1))
            els = Block(self.gen_block(dict(env), nest + 1)) if rng.random() < 0.4 else None
            return If(c, then, els)
        if self.cfg.loops and nest < 2:
            i = self.fresh(env)
            bound = rng.randint(1, 4)
            env2 = dict(env)
            env2[i] = INT
            self.readonly.add(i)
            self.nonneg[i] = bound
            body = Block(self.gen_block(env2, nest + 1))
            self.readonly.discard(i)
            del self.nonneg[i]
            return For(Decl(INT, i, IntLit(0)), Bin("<", Var(i, INT), IntLit(bound), INT), Affix("++", True, Var(i, INT)), body)
        return self.gen_simple_stmt(env)

    def gen_decl(self, env):
        t = self.rand_storage()
        n = self.fresh(env)
        init = None
        if (is_scalar(t) or is_vec(t) or is_mat(t)) and self.rng.random() < 0.75:
            init = self.expr(t, env, 1)
        env[n] = t
        return Decl(t, n, init)

    def cond(self, env):
        """an int scalar condition"""
        rng = self.rng
        t = rng.choice([INT, FLOAT])
        return Bin(rng.choice(CMP), self.expr(t, env, 2), self.expr(t, env, 2), INT)

    def targets(self, env):
        """assignable places: (expr, kind)"""
        out = []
        for n, t in env.items():
            if n in self.readonly:
                continue
            v = Var(n, t)
            if is_scalar(t) or is_vec(t) or is_mat(t):
                out.append(v)
            elif is_arr(t):
                out.append(("arr", v))
            elif is_struct(t):
                for ft, fn in self.module.struct_fields(t[1]):
                    out.append(Field(v, fn, ft))
        return out

    def index_for(self, size, env):
        rng = self.rng
        cands = [n for n, b in self.nonneg.items() if b <= size and n in env]
        if cands and rng.random() < 0.5:
            return Var(rng.choice(cands), INT)
        cands = [n for n in self.nonneg if n in env]
        if cands and rng.random() < 0.3:
            return Bin("%", Var(rng.choice(cands), INT), IntLit(size), INT)
        return IntLit(rng.randrange(size))

    def refine_target(self, place, env):
        """descend from a place to something assignable, possibly through index / swizzle"""
        rng = self.rng
        if isinstance(place, tuple):
            v = place[1]
            t = v.ty
            place = Index(v, self.index_for(t[2][0], env), t[1])
        t = place.ty
        r = rng.random()
        if is_vec(t) and r < 0.55:
            n = t[2]
            if rng.random() < 0.45:
                return Index(place, self.index_for(n, env), t[1])
            k = rng.randint(1, n)
            letters = rng.choice([XYZW, RGBA])[:n]
            mask = "".join(rng.sample(letters, k))
            return Swizzle(place, mask)
        if is_mat(t) and r < 0.6:
            row = Index(place, self.index_for(t[2], env), vec(t[1], t[3]))
            if rng.random() < 0.5:
                return row
            return Index(row, self.index_for(t[3], env), t[1])
        return place

    def gen_simple_stmt(self, env, allow_calls=True):
        rng = self.rng
        ts = self.targets(env)
        if not ts:
            return self.gen_decl(env)
        target = self.refine_target(rng.choice(ts), env)
        tt = target.ty
        r = rng.random()
        op = "="
        if r < 0.25 and not isinstance(target, Swizzle):
            op = rng.choice(["+=", "-=", "*=", "/="])
        if op in ("*=", "/="):
            # right operand: scalar (any left shape) — for matrices `*=` with a matrix also type-checks when square
            st = tt if is_scalar(tt) else tt[1]
            if st == INT:
                value = IntLit(rng.choice([1, 2, 3, -1, -2])) if op == "/=" else self.expr(INT, env, 2, allow_calls)
            else:
                value = FloatLit(rng.choice([0.5, 2.0, 4.0, 1.0, 3.0, 0.7])) if op == "/=" else self.expr(rng.choice([FLOAT, INT]), env, 2, allow_calls)
        elif op in ("+=", "-="):
            value = self.expr(tt, env, 1, allow_calls)
        else:
            vt = tt
            if tt == FLOAT and rng.random() < 0.2:
                vt = INT
            value = self.expr(vt, env, 1, allow_calls)
        return ExprStmt(Assign(op, target, value))

    # ----------------------------------------------------------- expressions
    def lit(self, t):
        return IntLit(self.rng.choice(I_LITS)) if t == INT else FloatLit(self.rng.choice(F_LITS))

    def places(self, env, want):
        """readable access expressions of exactly type `want`"""
        out = []
        for n, t in env.items():
            v = Var(n, t)
            if t == want:
                out.append(v)
            if is_arr(t) and t[1] == want:
                out.append(Index(v, self.index_for(t[2][0], env), want))
            if is_struct(t):
                for ft, fn in self.module.struct_fields(t[1]):
                    if ft == want:
                        out.append(Field(v, fn, ft))
            if is_mat(t) and want == vec(t[1], t[3]):
                out.append(Index(v, self.index_for(t[2], env), want))
        return out

    def vector_sources(self, env, comp=None):
        out = []
        for n, t in env.items():
            v = Var(n, t)
            if is_vec(t) and (comp is None or t[1] == comp):
                out.append(v)
            if is_arr(t) and is_vec(t[1]) and (comp is None or t[1][1] == comp):
                out.append(Index(v, self.index_for(t[2][0], env), t[1]))
            if is_struct(t):
                for ft, fn in self.module.struct_fields(t[1]):
                    if is_vec(ft) and (comp is None or ft[1] == comp):
                        out.append(Field(v, fn, ft))
            if is_mat(t) and (comp is None or t[1] == comp):
                out.append(Index(v, self.index_for(t[2], env), vec(t[1], t[3])))
        return out

    def expr(self, t, env, depth, allow_calls=True):
        rng, cfg = self.rng, self.cfg
        if is_scalar(t):
            return self.scalar_expr(t, env, depth, allow_calls)
        leafy = depth >= cfg.max_depth
        r = rng.random()
        if is_vec(t):
            c, n = t[1], t[2]
            if not leafy and r < 0.30:
                op = rng.choice(["+", "-"])
                lt = t
                rt = t
                if cfg.mixed_components and c == FLOAT and cfg.int_vectors and rng.random() < 0.2:
                    rt = vec(INT, n)
                l, rr = self.expr(lt, env, depth + 1, allow_calls), self.expr(rt, env, depth + 1, allow_calls)
                if rng.random() < 0.5:
                    l, rr = rr, l
                return Bin(op, l, rr, t)
            if not leafy and r < 0.45:
                # vector * scalar, scalar * vector, vector / scalar
                st = c if (c == INT or rng.random() < 0.7) else INT
                form = rng.choice(["vs", "sv", "div"])
                v = self.expr(t, env, depth + 1, allow_calls)
                if form == "div":
                    s = IntLit(rng.choice([1, 2, 3, -2])) if st == INT else FloatLit(rng.choice([0.5, 2.0, 4.0, 3.0, 0.7]))
                    return Bin("/", v, s, t)
                s = self.scalar_expr(st, env, depth + 1, allow_calls)
                return Bin("*", v, s, t) if form == "vs" else Bin("*", s, v, t)
            if not leafy and c == INT and r < 0.52:
                ot = vec(rng.choice([FLOAT, INT]) if cfg.int_vectors else FLOAT, n)
                return Bin(rng.choice(CMP), self.expr(ot, env, depth + 1, allow_calls), self.expr(ot, env, depth + 1, allow_calls), t)
            if not leafy and cfg.mat_vec_product and cfg.matrices and c == FLOAT and n in (3, 4) and r < 0.58:
                mt = mat(FLOAT, n, n)
                return Bin("*", self.expr(mt, env, depth + 1, allow_calls), self.expr(t, env, depth + 1, allow_calls), t)
            if r < 0.72:
                srcs = [s for s in self.vector_sources(env, c)]
                if srcs:
                    src = rng.choice(srcs)
                    m = src.ty[2]
                    letters = rng.choice([XYZW, RGBA])[:m]
                    mask = "".join(rng.choice(letters) for _ in range(n))
                    return Swizzle(src, mask)
            if allow_calls and not leafy and r < 0.80:
                c_ = self.call(t, env, depth)
                if c_ is not None:
                    return c_
            if r < 0.90:
                ps = self.places(env, t)
                if ps:
                    return rng.choice(ps)
            return self.construct_vec(t, env, depth, allow_calls)
        if is_mat(t):
            if not leafy and r < 0.25:
                return Bin(rng.choice(["+", "-"]), self.expr(t, env, depth + 1, allow_calls), self.expr(t, env, depth + 1, allow_calls), t)
            if not leafy and r < 0.35:
                return Bin("*", self.expr(t, env, depth + 1, allow_calls), self.expr(t, env, depth + 1, allow_calls), t)
            if not leafy and r < 0.50:
                form = rng.choice(["ms", "sm", "div"])
                m_ = self.expr(t, env, depth + 1, allow_calls)
                if form == "div":
                    return Bin("/", m_, FloatLit(rng.choice([0.5, 2.0, 4.0, 3.0, 0.7])), t)
                s = self.scalar_expr(rng.choice([FLOAT, INT]), env, depth + 1, allow_calls)
                return Bin("*", m_, s, t) if form == "ms" else Bin("*", s, m_, t)
            if allow_calls and not leafy and r < 0.58:
                c_ = self.call(t, env, depth)
                if c_ is not None:
                    return c_
            if r < 0.85:
                ps = self.places(env, t)
                if ps:
                    return rng.choice(ps)
            rowt = vec(t[1], t[3])
            return Construct(t, [self.expr(rowt, env, max(depth + 1, self.cfg.max_depth - 1), allow_calls) for _ in range(t[2])])
        raise ValueError(t)

    def construct_vec(self, t, env, depth, allow_calls):
        rng = self.rng
        c, n = t[1], t[2]
        args = []
        left = n
        while left > 0:
            k = rng.choice([1, 1, 1, 2, 3])
            if k > left or k == n:
                k = 1
            if k == 1:
                st = c if (c == INT or rng.random() < 0.8) else INT
                args.append(self.scalar_expr(st, env, max(depth + 1, self.cfg.max_depth - 1), allow_calls))
            else:
                # now and then a vector part of the other component type (converted component by component)
                r = rng.random()
                vc = c
                if c == FLOAT and r < 0.15:
                    vc = INT
                elif c == INT and r < 0.06:
                    vc = FLOAT
                args.append(self.expr(vec(vc, k), env, max(depth + 1, self.cfg.max_depth), allow_calls))
            left -= k
        return Construct(t, args)

    def scalar_expr(self, t, env, depth, allow_calls=True):
        rng = self.rng
        r = rng.random()
        leafy = depth >= self.cfg.max_depth
        if r < 0.30:
            # a component of a vector / matrix
            srcs = self.vector_sources(env, t)
            if srcs:
                src = rng.choice(srcs)
                n = src.ty[2]
                if rng.random() < 0.5:
                    return Index(src, self.index_for(n, env), t)
                letters = rng.choice([XYZW, RGBA])[:n]
                return Swizzle(src, rng.choice(letters))
        if not leafy and r < 0.55:
            op = rng.choice(["+", "-", "*"])
            lt = t
            rt = t if (t == INT or rng.random() < 0.7) else INT
            l, rr = self.scalar_expr(lt, env, depth + 1, allow_calls), self.scalar_expr(rt, env, depth + 1, allow_calls)
            if rng.random() < 0.5:
                l, rr = rr, l
            return Bin(op, l, rr, t)
        if allow_calls and not leafy and r < 0.62:
            c_ = self.call(t, env, depth)
            if c_ is not None:
                return c_
        if r < 0.85:
            ps = self.places(env, t)
            if ps:
                return rng.choice(ps)
        return self.lit(t)

    def call(self, t, env, depth):
        cands = [h for h in self.helpers if h.ret == t]
        if not cands:
            return None
        h = self.rng.choice(cands)
        args = []
        for pt, _ in h.params:
            at = pt
            if pt == FLOAT and self.rng.random() < 0.25:
                at = INT
            args.append(self.expr(at, env, max(depth + 1, self.cfg.max_depth - 1), allow_calls=False))
        return Call(h.name, args, h.ret, h)
