"""Generator for the WebAssembly backend's subset (C06, C07, C19): straight-line scalar functions
`return <expr>;` over int or float parameters with type-homogeneous arithmetic (+ - * /), comparisons
(== < >) and constants at LEB128 boundaries; many functions per module, 0-8 parameters of mixed type,
void and non-void results.  A second family deliberately steps outside the subset (locals, stores,
branches, loops, casts, calls, vectors) — those must be refused or still agree with the VM."""
from ..lang import (INT, FLOAT, UINT, VOID, IntLit, FloatLit, Var, Bin, Assign, Call, Decl, ExprStmt, Block, If, While, Return,
                    Func, Module)

BOUNDARY_INTS = sorted({s * (v + d) for k in range(1, 5) for v in (1 << (7 * k - 1), 1 << (7 * k)) for d in (-1, 0, 1) for s in (1, -1)} |
                       {0, 1, -1, 2, 63, 64, 65, -63, -64, -65, 127, 128, 255, 256, 2147483647, -2147483647, -2147483648})
FLOAT_CONSTS = [0.0, 0.5, 1.0, 1.5, 2.0, 3.25, 100.0, 0.125, 1024.0, 7.75]


class WasmGen:
    def __init__(self, rng, nfuncs=None, max_depth=4, boundary_bias=0.3, prefix="f"):
        self.prefix = prefix
        self.rng = rng
        self.nfuncs = nfuncs or rng.randint(1, 12)
        self.max_depth = max_depth
        self.boundary_bias = boundary_bias

    def int_lit(self):
        rng = self.rng
        if rng.random() < self.boundary_bias:
            if rng.random() < 0.08:
                # literals that do not fit a signed 32-bit immediate: must be refused or still give a valid module
                return IntLit(rng.choice([2147483648, 4294967295, 4000000000, 4294967296, -2147483649, 1 << 40]))
            return IntLit(rng.choice(BOUNDARY_INTS))
        return IntLit(rng.choice([0, 1, 2, 3, 5, 7, 10, 100, -1, -3, 1000]))

    def expr(self, t, params, depth):
        rng = self.rng
        vs = [n for ty, n in params if ty == t]
        if t == UINT:
            # unsigned values exist only as parameters (there is no unsigned literal); the result of an
            # unsigned comparison is an int
            if vs and (depth >= self.max_depth or rng.random() < 0.4):
                return Var(rng.choice(vs), UINT)
            if not vs:
                raise ValueError("no uint parameter")
            op = rng.choice(["+", "*", "/", "+"])
            return Bin(op, self.expr(UINT, params, depth + 1), self.expr(UINT, params, depth + 1) if op != "/" else Var(rng.choice(vs), UINT), UINT)
        if depth >= self.max_depth or rng.random() < 0.25:
            if vs and rng.random() < 0.65:
                return Var(rng.choice(vs), t)
            return self.int_lit() if t == INT else FloatLit(rng.choice(FLOAT_CONSTS))
        r = rng.random()
        if t == INT and r < 0.25:
            ot = rng.choice([INT, FLOAT] + ([UINT, UINT] if any(ty == UINT for ty, _ in params) else []))
            return Bin(rng.choice(["==", "<", ">"]), self.expr(ot, params, depth + 1), self.expr(ot, params, depth + 1), INT)
        # (`%` is rare: the backend refuses it today, and one refused function refuses the whole module)
        op = rng.choice(["+", "-", "*", "+", "-", "*", "/"]) if (t != INT or rng.random() > 0.015) else "%"
        l = self.expr(t, params, depth + 1)
        if op == "%":
            return Bin("%", l, IntLit(rng.choice([2, 3, 5, 7, -3, 16, 100])), INT)
        if op == "/":
            rr = IntLit(rng.choice([1, 2, 3, 7, -2, -5, 64, 128])) if t == INT else FloatLit(rng.choice([0.5, 2.0, 4.0, 1.5]))
        else:
            rr = self.expr(t, params, depth + 1)
        return Bin(op, l, rr, t)

    def gen_module(self):
        rng = self.rng
        funcs = []
        # a third of the modules mix internal (not exported) functions with exported ones, in any position:
        # what the emitted module exports under a name must still be that function
        internal_p = rng.choice([0.0, 0.0, 0.3, 0.6])
        for i in range(self.nfuncs):
            np_ = rng.randint(0, 8) if rng.random() < 0.3 else rng.randint(0, 3)
            params = [(rng.choice([INT, FLOAT, INT, FLOAT, UINT]), "p%d" % k) for k in range(np_)]
            r = rng.random()
            if r < 0.1:
                funcs.append(Func("%s%d" % (self.prefix, i), params, VOID, Block([Return(None)]), rng.random() >= internal_p))
                continue
            t = rng.choice([INT, FLOAT] + ([UINT] if any(ty == UINT for ty, _ in params) else []))
            funcs.append(Func("%s%d" % (self.prefix, i), params, t, Block([Return(self.expr(t, params, 0))]), rng.random() >= internal_p))
        if not any(f.exported for f in funcs):
            funcs[-1].exported = True
        return Module(funcs=funcs)


def outside_subset(rng):
    """programs using constructs the backend may not support: (name, Module, fname)"""
    a, b = Var("a", INT), Var("b", INT)
    x = Var("x", INT)
    f = Var("f", FLOAT)
    I = IntLit
    P = [(INT, "a"), (INT, "b")]
    h = Func("h", [(INT, "v")], INT, Block([Return(Bin("*", Var("v", INT), I(3), INT))]), False)
    cases = {
        "local": [Decl(INT, "x", Bin("+", a, I(1), INT)), Return(Bin("*", x, b, INT))],
        "store_param": [ExprStmt(Assign("=", a, Bin("+", a, b, INT))), Return(a)],
        "branch": [If(Bin("<", a, b, INT), Block([Return(a)])), Return(b)],
        "loop": [Decl(INT, "x", I(0)), While(Bin("<", x, a, INT), Block([ExprStmt(Assign("=", x, Bin("+", x, I(2), INT)))])), Return(x)],
        "cast": [Return(Bin("+", Bin("*", a, FloatLit(0.5), FLOAT), b, FLOAT))],
        "call": [Return(Bin("+", Call("h", [a], INT, h), b, INT))],
        "mod": [Return(Bin("%", Bin("*", a, a, INT), I(7), INT))],
        "mod_signed": [Return(Bin("+", Bin("%", a, I(5), INT), Bin("%", Bin("+", a, b, INT), I(-3), INT), INT))],
        "logic": [Return(Bin("&&", a, b, INT))],
        "cmp_le": [Return(Bin("<=", a, b, INT))],
        "cmp_ne": [Return(Bin("!=", a, b, INT))],
        "compound": [ExprStmt(Assign("+=", a, b)), Return(Bin("-", a, I(1), INT))],
        # int literals with bit 31 set or beyond (no signed 32-bit immediate holds them), where wrapping them would show:
        # in comparisons and divisions (sums and products agree modulo 2^32)
        "big_literal_lt": [Return(Bin("<", a, I(3000000000), INT))],
        "big_literal_gt": [Return(Bin(">", I(2147483648), a, INT))],
        "big_literal_div": [Return(Bin("/", I(4000000000), Bin("+", Bin("*", a, a, INT), I(1), INT), INT))],
        "big_literal_div_by": [Return(Bin("/", Bin("+", a, b, INT), I(4294967295), INT))],
        "big_literal_eq_sum": [Return(Bin("==", Bin("+", a, I(2147483648), INT), b, INT))],
    }
    out = []
    for k, body in cases.items():
        ret = FLOAT if k == "cast" else INT
        fs = ([h] if k == "call" else []) + [Func("f", P, ret, Block(body), True)]
        out.append((k, Module(funcs=fs), "f"))
    return out


INT_INPUTS = [0, 1, -1, 2, 7, 63, 64, 65, -64, -65, 127, 128, 1000, -1000, 16383, 16384, 2097151, 2097152, 2147483647, -2147483648, 12345, -77]
UINT_INPUTS = [0, 1, 2, 5, 100, 65535, 2147483647, 2147483648, 3000000000, 4294967295, 4294967294, 2147483649]
FLOAT_INPUTS = [0.0, 1.0, -1.0, 0.5, 2.5, -3.75, 100.0, 1024.0, 1e6, -1e6, 0.015625, 3.0]


def inputs_for(rng, fn, k):
    out = []
    for _ in range(k):
        out.append({n: (rng.choice(INT_INPUTS) if t == INT else (rng.choice(UINT_INPUTS) if t == UINT else rng.choice(FLOAT_INPUTS))) for t, n in fn.params})
    return out
