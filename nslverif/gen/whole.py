"""Generator 4: the whole spellable language, deliberately loose about types (C05, also C17/C18).

Two sources of candidate programs:
  * seeds — hand-written feature programs (uint, arrays of 1-3 dimensions, nested structs, arrays of
    structs, globals of every kind, void functions, empty statements, unbraced bodies, every operator on
    vectors and matrices, calls, recursion) + the repository's own NSL sources (test.nsl, test2.nsl,
    stdlib.nsl, the snippets embedded in tests/*.py) + programs of the strict generators (core, vec, calls);
  * token-level mutations of those: identifier / operator / type name / literal / swizzle-mask replacement,
    token deletion, duplication and swap.
Most candidates are rejected by the front end; the accepted ones are C05's workload, so the front end's
fence is probed from both sides.  Nothing here predicts acceptance."""
import os
import re

TOKEN_RE = re.compile(r"""
    \s+ | "[^"\n]*" |
    [0-9]*\.[0-9]+(?:[eE][-+]?[0-9]+)?[fF]? | [0-9]+\.(?:[eE][-+]?[0-9]+)?[fF]? | [0-9]+[eE][-+]?[0-9]+[fF]? |
    0[xX][0-9a-fA-F]+ | [0-9]+ |
    [A-Za-z_][A-Za-z_0-9]* |
    \+\+ | -- | -> | <= | >= | == | != | && | \|\| | \+= | -= | \*= | /= |
    [-+*/%<>=!&|^~;{}()\[\].,:]
""", re.X)

TYPE_NAMES = ["int", "float", "uint", "int2", "int3", "int4", "float2", "float3", "float4", "uint2", "uint3", "uint4",
              "float3x3", "float4x4", "void"]
BINOPS = ["+", "-", "*", "/", "%", "<", "<=", ">", ">=", "==", "!=", "&&", "||"]
ASSIGNOPS = ["=", "+=", "-=", "*=", "/="]
KEYWORDS = {"function", "export", "return", "if", "else", "for", "while", "do", "break", "continue", "struct", "import"}
LITERALS = ["0", "1", "2", "3", "4", "7", "-1", "-2", "0x10", "1.5", "0.5", "2.0", ".25", "1e1", "3.", "100"]
MASKS = ["x", "y", "z", "w", "xy", "yx", "zw", "xyz", "zyx", "xyzw", "wzyx", "xx", "r", "g", "rg", "rgb", "bgr", "rgba", "xxxx", "a"]

SEEDS = [
    # conversions in nested positions: call in a call argument, in a constructor argument, in an index, in a condition
    """int[9] tab;
function twice (int x) -> int {
  return x * 2;
}
function half (float x) -> float {
  return x * 0.5;
}
function pick (int i, float w) -> float {
  return tab[i] * w;
}
export function f (int a, float b) -> float {
  tab[twice(1.5)] = 7;
  int2 q = int2(twice(2.5), half(a));
  float3 v = float3(half(twice(3.75)), twice(half(5)), b);
  float r = pick(twice(0.5), twice(2.5)) + tab[twice(1.7)] + q.x + v.y;
  if (twice(half(3)) > half(twice(1.5))) { r = r + pick(q.y, v.x); }
  return r + half(twice(half(twice(9.0))));
}
""",
    # every kind of int-valued expression used as an index (a float sneaking in fails as an index, not as a value)
    """int[8] tab;
float4 v4;
export function f (int2 iv, int3 w, int k, float x, uint u) -> float {
  int2 q = iv / 2;
  int2 q2 = iv / k;
  int3 r = w % int3(2, 3, 4);
  int3 c = w > r;
  int3 d = (w == r) || c;
  int j = x;
  int m = x * 2.5;
  uint n = u / 2;
  int2 s = iv * 2 - q;
  float acc = tab[q.x] + tab[q[1]] + tab[q2.y] + tab[r.z] + tab[c.x] + tab[d[2]] + tab[j] + tab[m] + tab[n] + tab[s.x];
  acc = acc + v4[c.y] + v4[r.x] + v4[k / 3] + v4[k % 4] + v4[u % 4];
  tab[q.y] = k;
  tab[c.z] += 1;
  v4[d.x] = x;
  return acc + tab[k / 2] + tab[(k > 1) + (x < 2.0)];
}
""",
    # uint and mixed scalars
    """uint gu;
export function f (uint a, int b, float c) -> float {
  uint x = a + 2;
  int y = b - a;
  gu = x * a;
  float z = c * a + y;
  if (a > b) { z = z + gu; }
  return z / (a + 1);
}
""",
    # arrays of 1-3 dimensions, local and global
    """int[2][3] g2;
float[2][2][2] g3;
int[4] g1;
export function f (int i, int j, int k) -> float {
  int[3][2] t;
  t[i][j] = 5;
  t[2][1] = t[i][j] + 1;
  g2[j][i] = t[2][1];
  g3[j][j][k] = 1.5;
  g1[i + 1] = g2[1][2];
  float[3] u;
  u[i] = g3[1][0][1] + g2[j][i];
  return u[i] + t[0][0] + g1[3];
}
""",
    # structs, nested structs, arrays in structs, arrays of structs (global)
    """struct P {
  float x;
  int n;
  float3 v;
}
struct Q {
  P p;
  int[3] t;
  float4x4 m;
}
Q gq;
P[2] gp;
export function f (int i, float s) -> float {
  Q q;
  q.p.x = s;
  q.p.v = float3(s, 2.0, 3.0);
  q.t[i] = 4;
  q.m[1][2] = s * 2.0;
  gq.p.n = q.t[i] + i;
  gq.t[2] = i;
  gp[i].x = q.p.v.y + q.m[1][2];
  gp[1].v.z = gp[i].x;
  P r;
  r.v = q.p.v * s;
  r.n = gq.p.n;
  return r.v.x + r.n + gp[1].v.z + gq.t[2];
}
""",
    # void functions, return without value, globals written by callees, empty statement, unbraced bodies
    """int counter;
float3 gv;
function bump (int by) -> void {
  counter = counter + by;
  if (by > 3) return;
  counter += 1;
}
function setv (float3 v) -> void {
  gv = v * 2.0;
  return;
}
export function f (int n, float3 v) -> int {
  for (int i = 0; i < n; ++i) bump(i);
  int k = 0;
  while (k < 3) k = k + 1;
  if (n > 2) setv(v); else setv(v.zyx);
  do { k--; } while (k > 0)
  return counter + k;
}
""",
    # every operator on vectors and matrices
    """export function f (float3 a, float3 b, int3 c, float3x3 m, float4x4 n, float s, int k) -> float3 {
  float3 r = a + b - a * s + b / s;
  int3 q = a < b;
  int3 p = c % int3(2, 3, 4);
  int3 o = (c > p) && (c != q);
  int3 oo = c || p;
  float3x3 mm = m * m + m - m * s;
  float3x3 dd = mm / s;
  float3 mv = m * a;
  float4x4 nn = n * n;
  r = r + mv + dd[1] + float3(q) * s;
  r.xz = r.zx + b.yy;
  r[k] = nn[k][k] + o[k] + oo[0] + p.y;
  return r + s * a + k * b;
}
""",
    # recursion and call chains with vectors
    """function fib (int n) -> int {
  if (n < 2) return n;
  return fib(n - 1) + fib(n - 2);
}
function len2 (float2 v) -> float {
  return v.x * v.x + v.y * v.y;
}
function scale (float2 v, float s) -> float2 {
  v *= s;
  return v;
}
function scale (float3 v, float s) -> float3 {
  return v * s;
}
export function f (int n, float2 v, float3 w) -> float {
  float2 t = scale(v, fib(n));
  float3 u = scale(w, 2);
  return len2(t) + len2(u.xy) + len2(scale(v.yx, n));
}
""",
    # casts, literals, compound assignment on everything, affix
    """float gf;
int[3] ga;
export function f (int a, float b, uint c) -> float {
  float x = a;
  int y = 3;
  x += y;
  x *= 2;
  x /= 4;
  x -= b;
  y += a;
  y *= 2;
  y /= 3;
  ga[y % 3] += a;
  ga[1] *= 2;
  gf = x;
  gf /= 2.0;
  ++a;
  a--;
  int z = a++ + --y;
  float4 v = float4(a, b, c, 1);
  v.x += 1.0;
  v.yz *= 2.0;
  v[3] -= 1;
  return v.x + v.y + v.z + v.w + z + ga[1] + gf + 0x1F + 017 + 1e1 + .5 + 2.f;
}
""",
    # swizzles of every shape, constructors from parts
    """export function f (float4 v, float2 a, int4 iv) -> float4 {
  float4 r = float4(a, a);
  r = float4(v.x, a, v.w);
  r = float4(v.xyz, 1.0) + float4(1.0, v.yzw) + float4(a.x, v.zw, a.y);
  float3 t = v.xxx + v.wzy + r.rgb;
  float2 u = t.zx + r.ba;
  int2 q = iv.wx + iv.yy;
  r.wzyx = v;
  r.xy = u;
  r.b = t.y + q.x;
  return r * float4(q, q).x + v.rrrr;
}
""",
    # loops with break/continue and arrays of vectors
    """float3[4] pts;
export function f (int n, float3 d) -> float3 {
  float3 acc = float3(0.0, 0.0, 0.0);
  for (int i = 0; i < 4; ++i) {
    if (i == n) continue;
    pts[i] = d * i;
    pts[i].y = i;
    if (pts[i].x > 10.0) break;
    acc += pts[i];
  }
  int j = 0;
  do {
    acc[j % 3] += pts[j][1];
    j++;
    if (j > n) break;
  } while (j < 4)
  return acc;
}
""",
]


def repo_sources(repo):
    out = []
    for rel in ("test.nsl", "test2.nsl", "nsl/stdlib.nsl"):
        p = os.path.join(repo, rel)
        if os.path.exists(p):
            try:
                t = open(p, encoding="utf-8-sig").read().replace("\r", "")
                t = re.sub(r'import\s+"[^"]*"\s*;', "", t)
                out.append(t)
            except Exception:
                pass
    tdir = os.path.join(repo, "tests")
    if os.path.isdir(tdir):
        for fn in sorted(os.listdir(tdir)):
            if not fn.endswith(".py"):
                continue
            try:
                t = open(os.path.join(tdir, fn), encoding="utf-8-sig").read().replace("\r", "")
            except Exception:
                continue
            for m in re.finditer(r'"""(.*?)"""', t, re.S):
                s = m.group(1)
                if "function" in s and "->" in s:
                    out.append(s)
    return out


def tokenize(text):
    return [t for t in TOKEN_RE.findall(text)]


def is_ident(t):
    return re.match(r"[A-Za-z_]\w*$", t) is not None and t not in KEYWORDS and t not in TYPE_NAMES


def is_number(t):
    return re.match(r"[0-9.]", t) is not None and t != "."


def mutate(text, rng, k=None):
    toks = tokenize(text)
    idx = [i for i, t in enumerate(toks) if not t.isspace()]
    if not idx:
        return text
    idents = sorted({t for t in toks if is_ident(t)})
    k = k or rng.choice([1, 1, 1, 2, 2, 3, 4])
    for _ in range(k):
        i = rng.choice(idx)
        t = toks[i]
        r = rng.random()
        prev = ""
        for j in range(i - 1, -1, -1):
            if not toks[j].isspace():
                prev = toks[j]
                break
        if t in TYPE_NAMES:
            toks[i] = rng.choice(TYPE_NAMES)
        elif t in BINOPS:
            toks[i] = rng.choice(BINOPS)
        elif t in ASSIGNOPS:
            toks[i] = rng.choice(ASSIGNOPS)
        elif prev == "." and is_ident(t):
            toks[i] = rng.choice(MASKS + idents[:3])
        elif is_number(t):
            toks[i] = rng.choice(LITERALS)
        elif is_ident(t) and idents:
            if r < 0.7:
                toks[i] = rng.choice(idents)
            elif r < 0.85:
                toks[i] = rng.choice(LITERALS)
            else:
                toks[i] = rng.choice(idents) + "." + rng.choice(MASKS)
        elif t in ("++", "--"):
            toks[i] = "--" if t == "++" else "++"
        elif t in ("break", "continue", "return"):
            toks[i] = rng.choice(["break", "continue", "return"]) if r < 0.7 else ""
        elif t in ("if", "while"):
            toks[i] = rng.choice(["if", "while"])
        elif r < 0.15:
            toks[i] = ""                                   # delete
        elif r < 0.25:
            toks[i] = t + " " + t                          # duplicate
        elif r < 0.35 and len(idx) > 1:
            j = rng.choice(idx)
            toks[i], toks[j] = toks[j], toks[i]            # swap
    return "".join(toks)
