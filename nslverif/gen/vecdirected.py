"""Directed (enumerated) families for vectors and matrices (C04): every swizzle read mask, every
non-repeating write mask, every operator x size x component type, matrix arithmetic, row/element
access for every constant and dynamic index, nested write chains, copy independence.

Each case is (family, Module, [(function name, inputs)]); many small exported functions share one
module so that one compilation serves many executions."""
import itertools

from ..lang import (INT, FLOAT, IntLit, FloatLit, Var, Index, Field, Swizzle, Bin, Assign, Call, Construct, Decl,
                    ExprStmt, Block, If, For, Affix, Return, Func, Module, vec, mat, arr, struct_t, bin_type, CMP, type_str)

XYZW, RGBA = "xyzw", "rgba"
FVALS = [1.5, 2.5, 3.5, 4.5]
IVALS = [3, 5, 7, 11]
FVALS2 = [-2.0, 0.5, 8.0, 1.25]
IVALS2 = [-4, 2, 9, 1]


def vals(c, n, alt=False):
    src = (FVALS2 if alt else FVALS) if c == FLOAT else (IVALS2 if alt else IVALS)
    return list(src[:n])


def mvals(n, alt=False):
    base = 0.5 if alt else 1.0
    return [[base + r * n + k * (1.5 if alt else 1.0) for k in range(n)] for r in range(n)]


def V(n, t):
    return Var(n, t)


def I(v):
    return IntLit(v)


def fn(name, params, ret, stmts, exported=True):
    return Func(name, params, ret, Block(stmts), exported)


def chunks(lst, k):
    for i in range(0, len(lst), k):
        yield lst[i:i + k]


def read_masks(n):
    for S in (XYZW, RGBA):
        letters = S[:n]
        for ln in (1, 2, 3, 4):
            for m in itertools.product(letters, repeat=ln):
                yield "".join(m)


def write_masks(n):
    for S in (XYZW, RGBA):
        letters = S[:n]
        for ln in range(1, n + 1):
            for m in itertools.permutations(letters, ln):
                yield "".join(m)


def swizzle_reads():
    cases = []
    for c in (FLOAT, INT):
        for n in (2, 3, 4):
            t = vec(c, n)
            funcs = []
            for k, mask in enumerate(read_masks(n)):
                e = Swizzle(V("v", t), mask)
                funcs.append((mask, fn("r%d" % k, [(t, "v")], e.ty, [Return(e)])))
            for ci, ch in enumerate(chunks(funcs, 40)):
                m = Module(funcs=[f for _, f in ch])
                calls = [(f.name, [({"v": vals(c, n)}, {})]) for _, f in ch]
                cases.append(("swizzle-read:%s%d" % (c, n), m, calls))
    return cases


def swizzle_writes():
    cases = []
    for c in (FLOAT, INT):
        for n in (2, 3, 4):
            t = vec(c, n)
            funcs = []
            k = 0
            for mask in write_masks(n):
                ln = len(mask)
                st = c if ln == 1 else vec(c, ln)
                # source kinds: variable (parameter), constructor, literal scalar for length 1, swizzle of itself
                srcs = [("var", V("s", st), [(st, "s")])]
                if ln > 1:
                    lits = [I(20 + i) if c == INT else FloatLit(20.5 + i) for i in range(ln)]
                    srcs.append(("ctor", Construct(st, lits), []))
                    srcs.append(("self", Swizzle(V("v", t), mask[::-1]), []))
                else:
                    srcs.append(("lit", I(42) if c == INT else FloatLit(42.5), []))
                for kind, src, extra in srcs:
                    body = [ExprStmt(Assign("=", Swizzle(V("v", t), mask), src)), Return(V("v", t))]
                    funcs.append((fn("w%d" % k, [(t, "v")] + extra, t, body), extra))
                    k += 1
            for ch in chunks(funcs, 40):
                m = Module(funcs=[f for f, _ in ch])
                calls = []
                for f, extra in ch:
                    args = {"v": vals(c, n)}
                    for et, en in extra:
                        args[en] = (90 if c == INT else 90.5) if et == c else [(90 + i if c == INT else 90.5 + i) for i in range(et[2])]
                    calls.append((f.name, [(args, {})]))
                cases.append(("swizzle-write:%s%d" % (c, n), m, calls))
    return cases


def vector_ops():
    cases = []
    funcs = []
    k = 0
    for n in (2, 3, 4):
        for lc, rc in ((FLOAT, FLOAT), (INT, INT), (FLOAT, INT), (INT, FLOAT)):
            lt, rt = vec(lc, n), vec(rc, n)
            for op in ("+", "-") + CMP:
                ty = bin_type(op, lt, rt)
                funcs.append((fn("o%d" % k, [(lt, "a"), (rt, "b")], ty, [Return(Bin(op, V("a", lt), V("b", rt), ty))]),
                              [{"a": vals(lc, n), "b": vals(rc, n, True)}, {"a": vals(lc, n), "b": vals(rc, n)}]))
                k += 1
        for vc, sc in ((FLOAT, FLOAT), (INT, INT), (FLOAT, INT), (INT, FLOAT)):
            vt = vec(vc, n)
            for form in ("v*s", "s*v", "v/s"):
                if form == "v*s":
                    e = Bin("*", V("a", vt), V("s", sc), bin_type("*", vt, sc))
                elif form == "s*v":
                    e = Bin("*", V("s", sc), V("a", vt), bin_type("*", sc, vt))
                else:
                    e = Bin("/", V("a", vt), V("s", sc), bin_type("/", vt, sc))
                # (divisors whose reciprocal is not exact: a quotient is not a product with the reciprocal)
                svals = [2, -3, 7] if sc == INT else [2.0, -0.5, 3.0, 0.7]
                funcs.append((fn("o%d" % k, [(vt, "a"), (sc, "s")], e.ty, [Return(e)]),
                              [{"a": vals(vc, n), "s": s} for s in svals] + [{"a": vals(vc, n, True), "s": svals[0]}]))
                k += 1
    for ch in chunks(funcs, 40):
        cases.append(("vector-op", Module(funcs=[f for f, _ in ch]), [(f.name, [(a, {}) for a in ins]) for f, ins in ch]))
    return cases


def constructors():
    funcs = []
    k = 0
    for c in (FLOAT, INT):
        for n in (2, 3, 4):
            t = vec(c, n)
            # every composition of n into parts of size 1..n-1 / scalars
            def comps(left):
                if left == 0:
                    yield []
                    return
                for p in range(1, left + 1):
                    if p == n:
                        continue
                    for rest in comps(left - p):
                        yield [p] + rest
            for parts in comps(n):
                for argc in ((c,) if c == INT else (FLOAT, INT)):
                    params, args, inp = [], [], {}
                    for i, p in enumerate(parts):
                        pt = argc if p == 1 else vec(c, p)
                        params.append((pt, "p%d" % i))
                        args.append(V("p%d" % i, pt))
                        base = 10 * (i + 1)
                        if p == 1:
                            inp["p%d" % i] = base if pt == INT else base + 0.5
                        else:
                            inp["p%d" % i] = [(base + j if c == INT else base + j + 0.25) for j in range(p)]
                    funcs.append((fn("c%d" % k, params, t, [Return(Construct(t, args))]), [inp]))
                    k += 1
    # vector arguments whose component type differs from the target's: every component is converted, whether it arrives as a
    # scalar or inside a vector (float -> int narrows: fractional values, so that a missing conversion shows in the result
    # and in what integer operations on it give)
    FRAC = [1.5, 2.75, -3.25, 4.5]
    INTS = [7, -2, 9, 4]
    for tc, ac in ((INT, FLOAT), (FLOAT, INT)):
        for n in (2, 3, 4):
            t = vec(tc, n)

            def comps2(left):
                if left == 0:
                    yield []
                    return
                for p in range(1, left + 1):
                    if p == n:
                        continue
                    for rest in comps2(left - p):
                        yield [p] + rest
            for parts in comps2(n):
                if all(p == 1 for p in parts):
                    continue
                params, args, inp, off = [], [], {}, 0
                for i, p in enumerate(parts):
                    pc = ac if p > 1 else (tc if i % 2 else ac)
                    pt = pc if p == 1 else vec(pc, p)
                    params.append((pt, "p%d" % i))
                    args.append(V("p%d" % i, pt))
                    src = FRAC if pc == FLOAT else INTS
                    vs = [src[(off + j) % 4] for j in range(p)]
                    inp["p%d" % i] = vs[0] if p == 1 else vs
                    off += p
                three = IntLit(3) if tc == INT else FloatLit(3.0)
                body = [Decl(t, "r", Construct(t, args)), Return(Bin("+", Bin("*", V("r", t), three, t), V("r", t), t))]
                funcs.append((fn("c%d" % k, params, t, body), [inp]))
                k += 1
    cases = []
    for ch in chunks(funcs, 40):
        cases.append(("constructor", Module(funcs=[f for f, _ in ch]), [(f.name, [(a, {}) for a in ins]) for f, ins in ch]))
    return cases


def matrix_ops():
    funcs = []
    k = 0
    for n in (3, 4):
        mt = mat(FLOAT, n, n)
        vt = vec(FLOAT, n)
        A, B_ = V("a", mt), V("b", mt)
        two = [{"a": mvals(n), "b": mvals(n, True)}]
        for op in ("+", "-", "*"):
            funcs.append((fn("m%d" % k, [(mt, "a"), (mt, "b")], mt, [Return(Bin(op, A, B_, mt))]), two))
            k += 1
        for sc in (FLOAT, INT):
            s = V("s", sc)
            sv = 2 if sc == INT else 0.5
            for form, e in (("m*s", Bin("*", A, s, mt)), ("s*m", Bin("*", s, A, mt)), ("m/s", Bin("/", A, s, mt))):
                funcs.append((fn("m%d" % k, [(mt, "a"), (sc, "s")], mt, [Return(e)]),
                              [{"a": mvals(n), "s": sv}] + [{"a": mvals(n, True), "s": x} for x in ([3, 7, -5] if sc == INT else [3.0, 0.7, -1.1])]))
                k += 1
            # the compound forms of the same operations: `a op= s` is `a = a op s`
            for cop in ("*=", "/="):
                funcs.append((fn("m%d" % k, [(mt, "a"), (sc, "s")], mt, [ExprStmt(Assign(cop, A, s)), Return(A)]),
                              [{"a": mvals(n), "s": sv}] + [{"a": mvals(n, True), "s": x} for x in ([3, 7] if sc == INT else [3.0, 0.7])]))
                k += 1
        # `a *= b` with two matrices is `a = a * b` (not b * a), `a += b`, `a -= b` element-wise
        for cop in ("*=", "+=", "-="):
            funcs.append((fn("m%d" % k, [(mt, "a"), (mt, "b")], mt, [ExprStmt(Assign(cop, A, B_)), Return(A)]), two + [{"a": mvals(n, True), "b": mvals(n)}]))
            k += 1
        funcs.append((fn("m%d" % k, [(mt, "a"), (mt, "b")], mt, [Decl(mt, "c", B_), ExprStmt(Assign("*=", V("c", mt), A)), ExprStmt(Assign("*=", V("c", mt), V("c", mt))), Return(V("c", mt))]), two))
        k += 1
        funcs.append((fn("m%d" % k, [(mt, "a"), (vt, "v")], vt, [Return(Bin("*", A, V("v", vt), vt))]),
                      [{"a": mvals(n), "v": vals(FLOAT, n)}, {"a": mvals(n, True), "v": vals(FLOAT, n, True)}]))
        k += 1
        ivt = vec(INT, n)
        funcs.append((fn("m%d" % k, [(mt, "a"), (ivt, "v")], vt, [Return(Bin("*", A, V("v", ivt), vt))]),
                      [{"a": mvals(n), "v": vals(INT, n)}]))
        k += 1
        # constructor from rows, rows from swizzles
        rows = [V("r%d" % i, vt) for i in range(n)]
        funcs.append((fn("m%d" % k, [(vt, "r%d" % i) for i in range(n)], mt, [Return(Construct(mt, rows))]),
                      [{"r%d" % i: [10.0 * i + j for j in range(n)] for i in range(n)}]))
        k += 1
        # chained products and sums
        e = Bin("+", Bin("*", A, B_, mt), Bin("*", Bin("-", B_, A, mt), FloatLit(2.0), mt), mt)
        funcs.append((fn("m%d" % k, [(mt, "a"), (mt, "b")], mt, [Return(e)]), two))
        k += 1
    return [("matrix-op", Module(funcs=[f for f, _ in funcs]), [(f.name, [(a, {}) for a in ins]) for f, ins in funcs])]


def element_access():
    funcs = []
    k = 0
    for c in (FLOAT, INT):
        for n in (2, 3, 4):
            t = vec(c, n)
            v = V("v", t)
            for i in range(n):
                funcs.append((fn("e%d" % k, [(t, "v")], c, [Return(Index(v, I(i), c))]), [{"v": vals(c, n)}]))
                k += 1
                sv = 77 if c == INT else 77.5
                funcs.append((fn("e%d" % k, [(t, "v"), (c, "s")], t, [ExprStmt(Assign("=", Index(v, I(i), c), V("s", c))), Return(v)]),
                              [{"v": vals(c, n), "s": sv}]))
                k += 1
            funcs.append((fn("e%d" % k, [(t, "v"), (INT, "i")], c, [Return(Index(v, V("i", INT), c))]),
                          [{"v": vals(c, n), "i": i} for i in range(n)]))
            k += 1
            sv = 66 if c == INT else 66.5
            funcs.append((fn("e%d" % k, [(t, "v"), (INT, "i"), (c, "s")], t,
                             [ExprStmt(Assign("=", Index(v, V("i", INT), c), V("s", c))), Return(v)]),
                          [{"v": vals(c, n), "i": i, "s": sv} for i in range(n)]))
            k += 1
            # compound assignment through an index, ++ is not applicable to elements
            funcs.append((fn("e%d" % k, [(t, "v"), (INT, "i"), (c, "s")], t,
                             [ExprStmt(Assign("+=", Index(v, V("i", INT), c), V("s", c))),
                              ExprStmt(Assign("*=", Index(v, I(0), c), V("s", c))), Return(v)]),
                          [{"v": vals(c, n), "i": i, "s": sv} for i in range(n)]))
            k += 1
    for n in (3, 4):
        mt = mat(FLOAT, n, n)
        vt = vec(FLOAT, n)
        m = V("m", mt)
        for i in range(n):
            funcs.append((fn("e%d" % k, [(mt, "m")], vt, [Return(Index(m, I(i), vt))]), [{"m": mvals(n)}]))
            k += 1
            funcs.append((fn("e%d" % k, [(mt, "m"), (vt, "r")], mt, [ExprStmt(Assign("=", Index(m, I(i), vt), V("r", vt))), Return(m)]),
                          [{"m": mvals(n), "r": vals(FLOAT, n, True)}]))
            k += 1
            for j in range(n):
                funcs.append((fn("e%d" % k, [(mt, "m")], FLOAT, [Return(Index(Index(m, I(i), vt), I(j), FLOAT))]), [{"m": mvals(n)}]))
                k += 1
                funcs.append((fn("e%d" % k, [(mt, "m"), (FLOAT, "s")], mt,
                                 [ExprStmt(Assign("=", Index(Index(m, I(i), vt), I(j), FLOAT), V("s", FLOAT))), Return(m)]),
                              [{"m": mvals(n), "s": 99.5}]))
                k += 1
        ij = [{"m": mvals(n), "i": i, "j": j, "s": 55.5} for i in range(n) for j in range(n)]
        funcs.append((fn("e%d" % k, [(mt, "m"), (INT, "i"), (INT, "j"), (FLOAT, "s")], FLOAT,
                         [Return(Index(Index(m, V("i", INT), vt), V("j", INT), FLOAT))]), ij))
        k += 1
        funcs.append((fn("e%d" % k, [(mt, "m"), (INT, "i"), (INT, "j"), (FLOAT, "s")], mt,
                         [ExprStmt(Assign("=", Index(Index(m, V("i", INT), vt), V("j", INT), FLOAT), V("s", FLOAT))), Return(m)]), ij))
        k += 1
        funcs.append((fn("e%d" % k, [(mt, "m"), (INT, "i"), (INT, "j"), (FLOAT, "s")], mt,
                         [ExprStmt(Assign("=", Swizzle(Index(m, V("i", INT), vt), "zx"), Construct(vec(FLOAT, 2), [V("s", FLOAT), FloatLit(1.0)]))),
                          Return(m)]), ij[:n]))
        k += 1
        funcs.append((fn("e%d" % k, [(mt, "m"), (INT, "i"), (INT, "j"), (FLOAT, "s")], vec(FLOAT, 2),
                         [Return(Swizzle(Index(m, V("i", INT), vt), "yx"))]), ij[:n]))
        k += 1
    cases = []
    for ch in chunks(funcs, 50):
        cases.append(("element-access", Module(funcs=[f for f, _ in ch]), [(f.name, [(a, {}) for a in ins]) for f, ins in ch]))
    return cases


def nested_chains():
    """arr[i].xz = ..., s.v.y = ..., arr[i][j] = ..., g[i].x, struct in global"""
    f3 = vec(FLOAT, 3)
    i2 = vec(INT, 2)
    at = arr(f3, [3])
    st = struct_t("S")
    S = [("S", [(FLOAT, "k"), (f3, "v"), (i2, "w")])]
    funcs = []
    P = [(INT, "i"), (FLOAT, "s")]
    ins = [{"i": i, "s": 8.5} for i in range(3)]
    a = V("t", at)
    s_ = V("s", FLOAT)
    init = [Decl(at, "t")] + [ExprStmt(Assign("=", Index(a, I(r), f3), Construct(f3, [FloatLit(r + 0.5), FloatLit(r + 1.5), FloatLit(r + 2.5)]))) for r in range(3)]
    ret_all = Return(Bin("+", Bin("+", Index(a, I(0), f3), Bin("*", Index(a, I(1), f3), FloatLit(10.0), f3), f3),
                         Bin("*", Index(a, I(2), f3), FloatLit(100.0), f3), f3))
    funcs.append(fn("n0", P, f3, init + [ExprStmt(Assign("=", Swizzle(Index(a, V("i", INT), f3), "xz"), Construct(vec(FLOAT, 2), [s_, FloatLit(2.0)]))), ret_all]))
    funcs.append(fn("n1", P, f3, init + [ExprStmt(Assign("=", Index(Index(a, V("i", INT), f3), I(1), FLOAT), s_)), ret_all]))
    funcs.append(fn("n2", P, f3, init + [ExprStmt(Assign("=", Index(Index(a, I(2), f3), V("i", INT), FLOAT), s_)), ret_all]))
    funcs.append(fn("n3", P, f3, init + [ExprStmt(Assign("=", Swizzle(Index(a, V("i", INT), f3), "y"), s_)), ret_all]))
    funcs.append(fn("n4", P, f3, init + [ExprStmt(Assign("+=", Index(a, V("i", INT), f3), Construct(f3, [s_, s_, FloatLit(1.0)]))), ret_all]))
    funcs.append(fn("n5", P, FLOAT, init + [Return(Swizzle(Index(a, V("i", INT), f3), "z"))]))
    funcs.append(fn("n6", P, FLOAT, init + [Return(Index(Index(a, V("i", INT), f3), V("i", INT), FLOAT))]))
    x = V("x", st)
    sinit = [Decl(st, "x"), ExprStmt(Assign("=", Field(x, "v", f3), Construct(f3, [FloatLit(1.5), FloatLit(2.5), FloatLit(3.5)]))),
             ExprStmt(Assign("=", Field(x, "w", i2), Construct(i2, [I(4), I(6)]))), ExprStmt(Assign("=", Field(x, "k", FLOAT), FloatLit(9.0)))]
    sret = Return(Bin("+", Bin("*", Field(x, "v", f3), Field(x, "k", FLOAT), f3),
                      Construct(f3, [Index(Field(x, "w", i2), I(0), INT), Index(Field(x, "w", i2), I(1), INT), I(0)]), f3))
    funcs.append(fn("n7", P, f3, sinit + [ExprStmt(Assign("=", Swizzle(Field(x, "v", f3), "y"), s_)), sret]))
    funcs.append(fn("n8", P, f3, sinit + [ExprStmt(Assign("=", Index(Field(x, "v", f3), V("i", INT), FLOAT), s_)), sret]))
    funcs.append(fn("n9", P, f3, sinit + [ExprStmt(Assign("=", Swizzle(Field(x, "w", i2), "yx"), Construct(i2, [V("i", INT), I(30)]))), sret]))
    funcs.append(fn("n10", P, f3, sinit + [ExprStmt(Assign("=", Swizzle(Field(x, "v", f3), "zx"), Swizzle(Field(x, "v", f3), "xy"))), sret]))
    funcs.append(fn("n11", P, f3, sinit + [ExprStmt(Assign("*=", Field(x, "v", f3), s_)), ExprStmt(Assign("-=", Field(x, "k", FLOAT), s_)), sret]))
    # the same through globals
    g = V("g", at)
    gs = V("gs", st)
    gl = [(at, "g"), (st, "gs")]
    ginp = [({"i": i, "s": 8.5}, {"g": [[1.0, 2.0, 3.0], [4.0, 5.0, 6.0], [7.0, 8.0, 9.0]], "gs": {"k": 2.0, "v": [1.5, 2.5, 3.5], "w": [4, 6]}})
            for i in range(3)]
    gfuncs = []
    gfuncs.append(fn("q0", P, FLOAT, [ExprStmt(Assign("=", Swizzle(Index(g, V("i", INT), f3), "zy"), Construct(vec(FLOAT, 2), [s_, FloatLit(0.5)]))),
                                        Return(Index(Index(g, V("i", INT), f3), I(2), FLOAT))]))
    gfuncs.append(fn("q1", P, FLOAT, [ExprStmt(Assign("=", Index(Index(g, I(1), f3), V("i", INT), FLOAT), s_)), Return(Swizzle(Index(g, I(1), f3), "x"))]))
    gfuncs.append(fn("q2", P, FLOAT, [ExprStmt(Assign("=", Swizzle(Field(gs, "v", f3), "x"), s_)), ExprStmt(Assign("=", Index(Field(gs, "w", i2), I(1), INT), V("i", INT))),
                                        Return(Field(gs, "k", FLOAT))]))
    gfuncs.append(fn("q3", P, f3, [ExprStmt(Assign("=", Field(gs, "v", f3), Bin("*", Index(g, V("i", INT), f3), s_, f3))), Return(Field(gs, "v", f3))]))
    m1 = Module(structs=S, funcs=funcs)
    m2 = Module(structs=S, globals=gl, funcs=gfuncs)
    return [("nested-chain", m1, [(f.name, [(a_, {}) for a_ in ins]) for f in funcs]),
            ("nested-chain-global", m2, [(f.name, ginp) for f in gfuncs])]


def copy_independence():
    """w = v; modify w; read v   and   w = v; modify v; read w   for every storage kind and every write form"""
    cases = []
    f3 = vec(FLOAT, 3)
    m3 = mat(FLOAT, 3, 3)
    S = [("S", [(f3, "v"), (m3, "m")])]
    st = struct_t("S")
    funcs = []
    k = 0

    def writes(place, t):
        if t == f3:
            return [("whole", Assign("=", place, Construct(f3, [FloatLit(9.0), FloatLit(8.0), FloatLit(7.0)]))),
                    ("index", Assign("=", Index(place, I(1), FLOAT), FloatLit(50.0))),
                    ("dynindex", Assign("=", Index(place, V("i", INT), FLOAT), FloatLit(51.0))),
                    ("swizzle", Assign("=", Swizzle(place, "zx"), Construct(vec(FLOAT, 2), [FloatLit(60.0), FloatLit(61.0)]))),
                    ("swizzle1", Assign("=", Swizzle(place, "y"), FloatLit(62.0))),
                    ("compound", Assign("*=", place, FloatLit(3.0))),
                    ("compound-add", Assign("+=", place, Construct(f3, [FloatLit(1.0), FloatLit(1.0), FloatLit(1.0)])))]
        return [("row", Assign("=", Index(place, I(1), f3), Construct(f3, [FloatLit(9.0), FloatLit(8.0), FloatLit(7.0)]))),
                ("element", Assign("=", Index(Index(place, I(2), f3), I(0), FLOAT), FloatLit(50.0))),
                ("dynelement", Assign("=", Index(Index(place, V("i", INT), f3), V("i", INT), FLOAT), FloatLit(51.0))),
                ("rowswizzle", Assign("=", Swizzle(Index(place, V("i", INT), f3), "xz"), Construct(vec(FLOAT, 2), [FloatLit(60.0), FloatLit(61.0)]))),
                ("compound", Assign("*=", place, FloatLit(2.0)))]

    for t, tname in ((f3, "v"), (m3, "m")):
        storages = {
            "local-local": ([Decl(t, "a", V("p", t)), Decl(t, "b", V("a", t))], V("a", t), V("b", t), [], []),
            "param-local": ([Decl(t, "b", V("p", t))], V("p", t), V("b", t), [], []),
            "local-assign": ([Decl(t, "a", V("p", t)), Decl(t, "b"), ExprStmt(Assign("=", V("b", t), V("a", t)))], V("a", t), V("b", t), [], []),
            "global-local": ([ExprStmt(Assign("=", V("g", t), V("p", t))), Decl(t, "b", V("g", t))], V("g", t), V("b", t), [(t, "g")], []),
            "local-global": ([Decl(t, "a", V("p", t)), ExprStmt(Assign("=", V("g", t), V("a", t)))], V("a", t), V("g", t), [(t, "g")], []),
            "array-elems": ([Decl(arr(t, [2]), "t"), ExprStmt(Assign("=", Index(V("t", arr(t, [2])), I(0), t), V("p", t))),
                             ExprStmt(Assign("=", Index(V("t", arr(t, [2])), I(1), t), Index(V("t", arr(t, [2])), I(0), t)))],
                            Index(V("t", arr(t, [2])), I(0), t), Index(V("t", arr(t, [2])), I(1), t), [], []),
            "struct-field": ([Decl(st, "x"), ExprStmt(Assign("=", Field(V("x", st), tname, t), V("p", t))), Decl(t, "b", Field(V("x", st), tname, t))],
                             Field(V("x", st), tname, t), V("b", t), [], S),
            "field-field": ([Decl(st, "x"), Decl(st, "y"), ExprStmt(Assign("=", Field(V("x", st), tname, t), V("p", t))),
                             ExprStmt(Assign("=", Field(V("y", st), tname, t), Field(V("x", st), tname, t)))],
                            Field(V("x", st), tname, t), Field(V("y", st), tname, t), [], S),
        }
        for sname, (pre, src, dst, gl, structs) in storages.items():
            for direction in ("modify-copy", "modify-source"):
                target, keep = (dst, src) if direction == "modify-copy" else (src, dst)
                for wname, w in writes(target, t):
                    # return both so that a wrong value on either side shows
                    if t == f3:
                        ret = Bin("+", Bin("*", keep, FloatLit(1000.0), f3), target, f3)
                    else:
                        ret = Bin("+", Bin("*", keep, FloatLit(1000.0), m3), target, m3)
                    f = fn("c%d" % k, [(t, "p"), (INT, "i")], t, pre + [ExprStmt(w), Return(ret)])
                    k += 1
                    pv = [1.5, 2.5, 3.5] if t == f3 else mvals(3)
                    inputs = [({"p": pv, "i": i}, {n: ([0.0, 0.0, 0.0] if gt == f3 else [[0.0] * 3 for _ in range(3)]) for gt, n in gl}) for i in (0, 2)]
                    cases.append(("copy:%s:%s:%s:%s" % (tname, sname, direction, wname),
                                  Module(structs=structs, globals=gl, funcs=[f]), [(f.name, inputs)]))
    return cases


def all_cases():
    out = []
    for fam in (swizzle_reads, swizzle_writes, vector_ops, constructors, matrix_ops, element_access, nested_chains, copy_independence):
        out.extend(fam())
    return out
