"""Diagnostics recorder: every CompileException constructed (even those a visitor swallows) is logged
with its error code and message text."""
from .. import nslapi

_STATE = {"installed": False, "log": None}


def install():
    if _STATE["installed"]:
        return
    import nsl.Errors as E
    orig = E.CompileException.__init__

    def __init__(self, message, *args):
        orig(self, message, *args)
        log = _STATE["log"]
        if log is not None and len(log) < 200:
            try:
                log.append({"code": message.code, "text": self.messageText, "args": [str(a) for a in args]})
            except Exception:
                pass

    E.CompileException.__init__ = __init__
    _STATE["installed"] = True


def start():
    install()
    _STATE["log"] = []
    return _STATE["log"]


def stop():
    log = _STATE["log"]
    _STATE["log"] = None
    return log or []
