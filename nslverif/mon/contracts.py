"""Contracts on real functions of the compiler, installed from outside (no repository edit).

Each contract is an `icontract.ensure` post-condition with a *named* condition function that
records what it saw and returns True (a finding must never perturb the run it observes), plus a
thin wrapper that records exceptional outcomes (icontract does not check state after a raise).
The wrapped function replaces the module attribute, which the compiler looks up at call time;
every contract counts its evaluations and a zero count makes the check inconclusive.
"""
import icontract

from .. import nslapi
from ..ref import typing as tspec

nsl = nslapi.nsl
import nsl.types as _types  # noqa: E402
import nsl.op as _op  # noqa: E402

OPSTR = {"ADD": "+", "SUB": "-", "MUL": "*", "DIV": "/", "MOD": "%", "CMP_GT": ">", "CMP_LT": "<", "CMP_LE": "<=",
         "CMP_GE": ">=", "CMP_NE": "!=", "CMP_EQ": "==", "LG_OR": "||", "LG_AND": "&&"}


class ContractBroken(Exception):
    pass


def my_type(t):
    """real nsl.types object -> generator type (None when it is not a primitive of the universe)"""
    if t is None:
        return None
    k = type(t).__name__
    if k == "Float":
        return "float"
    if k == "Integer":
        return "int"
    if k == "UnsignedInteger":
        return "uint"
    try:
        if k == "VectorType":
            return ("vec", my_type(t.GetComponentType()), t.GetComponentCount())
        if k == "MatrixType":
            return ("mat", my_type(t.GetComponentType()), t.GetRowCount(), t.GetColumnCount())
        if k == "ArrayType":
            return ("arr", my_type(t.GetComponentType()), tuple(t.GetSize()))
        if k == "StructType":
            return ("struct", t.GetName())
        if k == "Void":
            return "void"
    except Exception:
        return ("?", k)
    return ("?", k)


def real_type(t):
    """generator type -> fresh nsl.types object"""
    if t == "float":
        return _types.Float()
    if t == "int":
        return _types.Integer()
    if t == "uint":
        return _types.UnsignedInteger()
    if t[0] == "vec":
        return _types.VectorType(real_type(t[1]), t[2])
    if t[0] == "mat":
        return _types.MatrixType(real_type(t[1]), t[2], t[3])
    raise ValueError(t)


def real_op(s):
    return _op.StrToOp(s)


# ------------------------------------------------------------------ C09 typing
class TypingRecorder:
    def __init__(self):
        self.evaluations = 0
        self.judged = 0
        self.undefined = 0
        self.out_of_universe = 0
        self.findings = []      # dicts: kind, op, L, R, expected, observed
        self.seen = set()

    def _find(self, kind, op, L, R, expected, observed):
        key = (kind, op, L, R)
        if key in self.seen:
            return
        self.seen.add(key)
        if len(self.findings) < 5000:
            self.findings.append({"kind": kind, "op": op, "L": tspec.tstr(L), "R": tspec.tstr(R),
                                  "expected": expected, "observed": observed, "Lt": L, "Rt": R})

    def judge(self, operation, left, right, result, raised):
        self.evaluations += 1
        try:
            op = OPSTR.get(operation.name)
        except Exception:
            op = None
        L, R = my_type(left), my_type(right)
        prim = lambda t: isinstance(t, str) and t != "void" or (isinstance(t, tuple) and t[0] in ("vec", "mat"))
        if op is None:
            self.out_of_universe += 1
            return
        if not (prim(L) and prim(R)):
            # a non-primitive operand must be rejected
            self.judged += 1
            if raised is None:
                self._find("accepted-nonprimitive", op, L if prim(L) else None, R if prim(R) else None,
                           "reject", "accepted")
            return
        s = tspec.spec(op, L, R)
        if s[0] == tspec.UNDEFINED:
            self.undefined += 1
            return
        self.judged += 1
        if s[0] == tspec.REJECT:
            if raised is None:
                try:
                    got = tspec.tstr(my_type(result.GetReturnType()))
                except Exception:
                    got = "?"
                self._find("accepted-undefined-combination", op, L, R, "reject", "accepted as " + got)
            return
        if raised is not None:
            self._find("rejected-defined-combination", op, L, R, "result " + tspec.tstr(s[1]), "raised " + raised)
            return
        try:
            got = my_type(result.GetReturnType())
            gl, gr = my_type(result.GetOperandType(0)), my_type(result.GetOperandType(1))
        except Exception as e:
            self._find("result-unreadable", op, L, R, "ExpressionType", "%s: %s" % (type(e).__name__, e))
            return
        if not tspec.matches(s[1], got):
            self._find("wrong-result-type", op, L, R, tspec.tstr(s[1]), tspec.tstr(got))
        elif not (tspec.matches(s[2], gl) and tspec.matches(s[3], gr)):
            self._find("wrong-operand-conversion", op, L, R, "%s,%s" % (tspec.tstr(s[2]), tspec.tstr(s[3])),
                       "%s,%s" % (tspec.tstr(gl), tspec.tstr(gr)))
        elif s[2] is None and (gl is None or gr is None):
            self._find("missing-operand-type", op, L, R, "operand types", "None")


_TYPING = {"rec": None, "installed": False, "orig": None}


def install_typing(recorder):
    """rebinding nsl.types.ResolveBinaryExpressionType to a contracted version"""
    _TYPING["rec"] = recorder
    if _TYPING["installed"]:
        return
    orig = _types.ResolveBinaryExpressionType
    _TYPING["orig"] = orig

    def typing_postcondition(operation, left, right, result):
        r = _TYPING["rec"]
        if r is not None:
            r.judge(operation, left, right, result, None)
        return True

    contracted = icontract.ensure(typing_postcondition, error=ContractBroken)(orig)

    def ResolveBinaryExpressionType(operation, left, right):
        try:
            return contracted(operation, left, right)
        except ContractBroken:
            raise
        except BaseException as e:
            r = _TYPING["rec"]
            if r is not None:
                r.judge(operation, left, right, None, type(e).__name__)
            raise

    _types.ResolveBinaryExpressionType = ResolveBinaryExpressionType
    _TYPING["installed"] = True


# ------------------------------------------------------------ C10 overloads
import weakref  # noqa: E402
from ..ref import overload as ospec  # noqa: E402


class OverloadRecorder:
    def __init__(self):
        self.evaluations = 0
        self.judged = 0
        self.out_of_universe = 0
        self.unknown_name_calls = 0
        self.findings = []
        self.seen = set()

    def find(self, kind, name, cands, args, expected, observed):
        key = (kind, tuple(cands), tuple(args))
        if key in self.seen:
            return
        self.seen.add(key)
        if len(self.findings) < 3000:
            self.findings.append({"kind": kind, "name": name, "candidates": [list(c) for c in cands], "args": list(args),
                                  "expected": expected, "observed": observed})


_OVL = {"rec": None, "installed": False, "shadow": None}


def _nearest(scope, name):
    shadow = _OVL["shadow"]
    s = scope
    while s is not None:
        d = shadow.get(s)
        if d is not None and name in d:
            return d[name]
        s = s.GetParent()
    return None


def _param_types(fn):
    return tuple(my_type(t) for t in fn.GetArgumentTypes().values())


def _has_optional(fn):
    try:
        return any(a.IsOptional() for a in fn.GetArguments())
    except Exception:
        return True


def _judge_overload(self, functionName, argumentTypes, result, raised):
    r = _OVL["rec"]
    if r is None:
        return
    r.evaluations += 1
    cands = _nearest(self, functionName)
    args = tuple(my_type(t) for t in argumentTypes)
    if cands is None:
        r.unknown_name_calls += 1
        if raised is None:
            r.find("unknown-name-resolved", functionName, [], args, "reject", "resolved")
        return
    ptypes = [_param_types(c) for c in cands]
    if any(_has_optional(c) for c in cands) or not all(ospec.in_universe(t) for t in args) or \
            not all(ospec.in_universe(t) for p in ptypes for t in p):
        r.out_of_universe += 1
        return
    r.judged += 1
    exp = ospec.resolve(ptypes, args)
    if exp is None:
        if raised is None:
            got = [i for i, c in enumerate(cands) if c is result]
            r.find("resolved-should-reject", functionName, ptypes, args, "reject",
                   "chose #%s %s" % (got[0] if got else "?", ptypes[got[0]] if got else "?"))
        return
    if raised is not None:
        r.find("rejected-should-resolve", functionName, ptypes, args, "candidate #%d %s" % (exp, ptypes[exp]), "raised " + raised)
        return
    if result is not cands[exp]:
        got = [i for i, c in enumerate(cands) if c is result]
        r.find("wrong-candidate", functionName, ptypes, args, "candidate #%d %s" % (exp, ptypes[exp]),
               "chose #%s %s" % (got[0] if got else "?", ptypes[got[0]] if got else "foreign object"))


def install_overload(recorder):
    _OVL["rec"] = recorder
    if _OVL["installed"]:
        return
    _OVL["shadow"] = weakref.WeakKeyDictionary()
    Scope = _types.Scope
    orig_find = Scope.FindFunction
    orig_reg = Scope.RegisterFunction

    def RegisterFunction(self, functionName, typeinfo):
        r = orig_reg(self, functionName, typeinfo)
        # shadow state, updated only after the real registration succeeded
        _OVL["shadow"].setdefault(self, {}).setdefault(functionName, []).append(typeinfo)
        return r

    def overload_postcondition(self, functionName, argumentTypes, result):
        _judge_overload(self, functionName, argumentTypes, result, None)
        return True

    contracted = icontract.ensure(overload_postcondition, error=ContractBroken)(orig_find)

    def FindFunction(self, functionName, argumentTypes):
        try:
            return contracted(self, functionName, argumentTypes)
        except ContractBroken:
            raise
        except BaseException as e:
            _judge_overload(self, functionName, argumentTypes, None, type(e).__name__)
            raise

    Scope.RegisterFunction = RegisterFunction
    Scope.FindFunction = FindFunction
    _OVL["installed"] = True


# ------------------------------------------------------------- C19 writer integers
from ..ref import leb as _leb  # noqa: E402


class PackRecorder:
    def __init__(self):
        self.evaluations = 0
        self.negative = 0
        self.findings = []
        self.seen = set()
        self.strings = 0

    def find(self, kind, value, detail):
        k = (kind, value if isinstance(value, int) and abs(value) < 1 << 40 else str(value)[:20])
        if k in self.seen:
            return
        self.seen.add(k)
        if len(self.findings) < 2000:
            self.findings.append({"kind": kind, "value": value if isinstance(value, int) else repr(value)[:40], "detail": detail})


_PACK = {"rec": None, "installed": False}


def _judge_pack(v, result, raised):
    r = _PACK["rec"]
    if r is None:
        return
    r.evaluations += 1
    if not isinstance(v, int) or isinstance(v, bool):
        if raised is None:
            r.find("non-integer-packed", v, "PackInteger(%r) returned %r" % (v, bytes(result)[:8] if result is not None else None))
        return
    if v < 0:
        r.negative += 1
        if raised is not None:
            return          # refusing negatives here is fine (a separate signed packer may exist)
        try:
            d, n = _leb.sleb(bytes(result))
        except _leb.LebError as e:
            r.find("negative-not-sleb", v, "bytes %s: %s" % (bytes(result).hex(), e))
            return
        if d != v or n != len(result):
            r.find("negative-not-sleb", v, "bytes %s decode (signed) to %d" % (bytes(result).hex(), d))
        return
    if raised is not None:
        if v < 1 << 32:
            r.find("unsigned-raises", v, raised)
        return
    b = bytes(result)
    try:
        d, n = _leb.uleb(b)
    except _leb.LebError as e:
        r.find("unsigned-not-uleb", v, "bytes %s: %s" % (b.hex(), e))
        return
    if d != v or n != len(b):
        r.find("unsigned-not-uleb", v, "bytes %s decode (unsigned) to %d using %d of %d bytes" % (b.hex(), d, n, len(b)))
    elif v < 1 << 32 and len(b) > 5:
        r.find("unsigned-too-long", v, "%d bytes" % len(b))


def install_pack(recorder):
    """contract on nsl.WebAssembly.PackInteger (also reached through WriteInteger, which looks it up at call time)"""
    _PACK["rec"] = recorder
    if _PACK["installed"]:
        return
    import nsl.WebAssembly as W
    orig = W.PackInteger

    def pack_postcondition(v, result):
        _judge_pack(v, result, None)
        return True

    contracted = icontract.ensure(pack_postcondition, error=ContractBroken)(orig)

    def PackInteger(v):
        try:
            return contracted(v)
        except ContractBroken:
            raise
        except BaseException as e:
            _judge_pack(v, None, type(e).__name__)
            raise

    W.PackInteger = PackInteger
    _PACK["installed"] = True


# --------------------------------------------------------------- C20 source positions
class PositionRecorder:
    def __init__(self):
        self.evaluations = 0
        self.str_evaluations = 0
        self.findings = []
        self.seen = set()

    def find(self, kind, detail, text=None):
        k = (kind, detail)
        if k in self.seen:
            return
        self.seen.add(k)
        if len(self.findings) < 500:
            self.findings.append({"kind": kind, "detail": detail, "text": text})


_POS = {"rec": None, "installed": False, "texts": None}


def naive_line(text, off):
    return text.count("\n", 0, off)


def naive_line_start(text, line):
    pos = 0
    for _ in range(line):
        pos = text.index("\n", pos) + 1
    return pos


def naive_location_string(text, b, e):
    """1-based line:column, end written as (exclusive end offset - line start + 1): the convention of Location.__str__"""
    lb, le = naive_line(text, b), naive_line(text, e)
    sb = b - (text.rfind("\n", 0, b) + 1)
    se = e - (text.rfind("\n", 0, e) + 1)
    if lb == le:
        return "%d:%d-%d" % (lb + 1, sb + 1, se + 1)
    return "%d:%d-%d:%d" % (lb + 1, sb + 1, le + 1, se + 1)


def install_positions(recorder):
    _POS["rec"] = recorder
    if _POS["installed"]:
        return
    import nsl.ast as A
    _POS["texts"] = weakref.WeakKeyDictionary()
    SM = A.SourceMapping
    orig_init = SM.__init__
    orig_line = SM.GetLineFromOffset
    orig_start = SM.GetLineStartOffset

    def __init__(self, source, *a, **kw):
        orig_init(self, source, *a, **kw)
        _POS["texts"][self] = source

    def line_postcondition(self, offset, result):
        r, text = _POS["rec"], _POS["texts"].get(self)
        if r is not None and text is not None and 0 <= offset <= len(text):
            r.evaluations += 1
            want = naive_line(text, offset)
            if result != want:
                r.find("line-of-offset", "offset %d of %r: line %r, recount gives %d" % (offset, text[:40], result, want), text)
        return True

    def start_postcondition(self, line, result):
        r, text = _POS["rec"], _POS["texts"].get(self)
        if r is not None and text is not None and 0 <= line <= text.count("\n"):
            r.evaluations += 1
            want = naive_line_start(text, line)
            if result != want:
                r.find("line-start", "line %d of %r: start %r, recount gives %d" % (line, text[:40], result, want), text)
        return True

    SM.__init__ = __init__
    SM.GetLineFromOffset = icontract.ensure(line_postcondition, error=ContractBroken)(orig_line)
    SM.GetLineStartOffset = icontract.ensure(start_postcondition, error=ContractBroken)(orig_start)

    Loc = A.Location
    orig_str = Loc.__str__

    def str_postcondition(self, result):
        r = _POS["rec"]
        if r is None:
            return True
        try:
            sm = self._Location__sourceMapping
            text = _POS["texts"].get(sm) if sm is not None else None
        except Exception:
            text = None
        if text is None or self.IsUnknown:
            return True
        b, e = self.GetBegin(), self.GetEnd()
        if 0 <= b <= e <= len(text):
            r.str_evaluations += 1
            want = naive_location_string(text, b, e)
            if result != want:
                r.find("location-string", "span [%d,%d) of %r printed as %s, recount gives %s" % (b, e, text[:40], result, want), text)
        return True

    Loc.__str__ = icontract.ensure(str_postcondition, error=ContractBroken)(orig_str)
    _POS["installed"] = True
