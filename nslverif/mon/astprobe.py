"""Probe on the real AST after the front end (types annotated by compute-types): finds stores whose
value does not fit the target — assignments, initialisers and returns that the front end does not
type-check.  Used by C05 to attribute failures of such programs to the recorded known finding
instead of to whatever instruction happens to trip over the ill-shaped value."""
from .contracts import my_type


def shape(t):
    if t is None:
        return ("none",)
    if isinstance(t, str):
        return ("void",) if t == "void" else ("s",)
    if t[0] == "vec":
        return ("v", t[2])
    if t[0] == "mat":
        return ("m", t[2], t[3])
    if t[0] == "arr":
        return ("a", tuple(t[2]), shape(t[1]))
    if t[0] == "struct":
        return ("st", t[1])
    return ("?",) + tuple(t[1:])


def comp(t):
    if isinstance(t, str):
        return t
    if t and t[0] in ("vec", "mat", "arr"):
        return comp(t[1])
    return None


def _narrow(target, value):
    ct, cv = comp(target), comp(value)
    return cv == "float" and ct in ("int", "uint")


def _children(node):
    out = []
    try:
        node.ForEachChild(lambda c, ctx=None: out.append(c))
    except Exception:
        pass
    return out


def _judge(kind, target, value, out):
    tt, vt = my_type(target), my_type(value)
    if shape(tt) != shape(vt):
        out.append((kind + "-shape", tt, vt))


def _walk(node, ret_type, out, depth=0):
    if depth > 200:
        return
    k = type(node).__name__
    if k == "AssignmentExpression":
        try:
            _judge("assignment", node.GetLeft().GetType(), node.GetRight().GetType(), out)
        except Exception:
            pass
    elif k == "VariableDeclaration":
        try:
            if node.HasInitializerExpression():
                _judge("initialiser", node.GetType(), node.GetInitializerExpression().GetType(), out)
        except Exception:
            pass
    elif k == "ReturnStatement":
        try:
            e = node.GetExpression()
            if e is None:
                if shape(my_type(ret_type)) != ("void",):
                    out.append(("return-shape", my_type(ret_type), "void"))
            else:
                _judge("return", ret_type, e.GetType(), out)
        except Exception:
            pass
    for c in _children(node):
        _walk(c, ret_type, out, depth + 1)


def unchecked_stores(module_ast):
    """[(kind, target type, value type)] over all functions of a typed ast.Module"""
    out = []
    try:
        funcs = module_ast.GetFunctions()
    except Exception:
        return out
    for f in funcs:
        try:
            rt = f.GetType().GetReturnType()
            body = f.GetBody()
        except Exception:
            continue
        if body is None:
            continue
        _walk(body, rt, out)
        try:
            stmts = body.GetStatements()
            last = type(stmts[-1]).__name__ if stmts else None
            if shape(my_type(rt)) != ("void",) and last != "ReturnStatement":
                out.append(("missing-return", my_type(rt), None))
        except Exception:
            pass
    return out
