"""Pass-boundary recorder: a listener for nslapi.compile_source that looks at the live IR after
lowering and after every IR pass, runs the well-formedness checker there, and attributes each
finding to the first pass after which it appears."""
from ..ref import irwf


class BoundaryRecorder:
    def __init__(self, check=True, keep_listings=False):
        self.check = check
        self.keep_listings = keep_listings
        self.boundaries = 0          # boundaries looked at (all compilations)
        self.functions_checked = 0
        self.reset()

    def reset(self):
        self.findings = []           # (pass name, finding dict)
        self._known = set()
        self.sizes = []              # (pass name, blocks, instructions)
        self.listings = []
        self.module = None
        self.errors = []

    def __call__(self, kind, name, root, inner):
        if kind == "AST" or kind == "WASM":
            return
        try:
            module = inner.Visitor.Module if kind == "LOWER" else root
            self.module = module
            self.boundaries += 1
            nb, ni = irwf.stats(module)
            self.sizes.append((name, nb, ni))
            if self.keep_listings:
                from .. import nslapi
                self.listings.append((name, nslapi.listing(module)))
            if self.check:
                fs = irwf.check_module(module)
                self.functions_checked += len(module.Functions)
                for f in fs:
                    key = (f["rule"], f["fn"], f.get("ref"), f.get("pc") if f["rule"] != "use-before-def" else None)
                    if key in self._known:
                        continue
                    self._known.add(key)
                    self.findings.append((name, f))
        except Exception as e:  # harness problem: the structure the monitor relies on is gone
            self.errors.append("%s after %s: %s: %s" % (kind, name, type(e).__name__, e))

    def removed_by(self):
        """instructions removed per pass (negative = added)"""
        out = {}
        for (n0, _, i0), (n1, _, i1) in zip(self.sizes, self.sizes[1:]):
            out[n1] = out.get(n1, 0) + (i0 - i1)
        return out
