"""VM observer (hook H1): receives enter/step/exit from the real interpreter loop.

Sub-monitors: instruction budget, opcode coverage, def-before-use, frame isolation at
every executed CALL, declared-index-range events, globals-change-only-at-stores, and
program-read-only digests.  All state is per process and single-threaded, like the VM.
"""
import collections


class VerifStepLimit(BaseException):
    """Raised out of `step` when the instruction budget is exhausted (nothing in the VM
    catches a BaseException subclass)."""


def _snap(v):
    if isinstance(v, list):
        return [_snap(x) for x in v]
    if isinstance(v, dict):
        return {k: _snap(x) for k, x in v.items()}
    return v


def _same(a, b):
    if isinstance(a, list) or isinstance(b, list):
        if not (isinstance(a, list) and isinstance(b, list)) or len(a) != len(b):
            return False
        return all(_same(x, y) for x, y in zip(a, b))
    if isinstance(a, float) and isinstance(b, float) and a != a and b != b:
        return True
    return a is b or a == b


_VALUE_KINDS = ("Scalar", "Vector", "Matrix")


def _kind(t):
    try:
        return t.Kind.name
    except Exception:
        return "?"


class _Act:
    __slots__ = ("fn", "names", "pending", "argkinds", "nsteps", "last_op")

    def __init__(self, fn):
        self.fn = fn
        self.names = {}      # declared local name -> type kind
        self.pending = None  # snapshot taken at a CALL, compared at the next step/exit
        self.nsteps = 0
        self.last_op = None
        try:
            self.argkinds = [_kind(t) for t in fn.Type.Arguments.values()]
        except Exception:
            self.argkinds = []


def operand_values(ins):
    """Operand Value objects an instruction will read, via its public properties only."""
    op = ins.OpCode.name
    v = ins.OpCode.value
    if (v >> 16) == 1:
        return list(ins.Values)
    if op == "LOAD" or op == "NEW_VARIABLE":
        return []
    if op == "STORE":
        return [ins.Store]
    if op in ("LOAD_ARRAY", "VECTOR_GET", "MATRIX_GET"):
        return [ins.Array, ins.Index]
    if op in ("STORE_ARRAY", "VECTOR_SET", "MATRIX_SET"):
        return [ins.Array, ins.Index, ins.Store]
    if op == "LOAD_MEMBER":
        return [ins.Variable]
    if op == "STORE_MEMBER":
        return [ins.Variable, ins.Store]
    if op == "SHUFFLE":
        return [ins.First, ins.Second]
    if op == "BRANCH":
        return [ins.Predicate] if ins.Predicate is not None else []
    if op == "RETURN":
        return [ins.Value] if ins.Value is not None else []
    if op == "CALL":
        return list(ins.Arguments)
    if op == "CAST":
        return [ins.Value]
    if op == "CONSTRUCT_PRIMITIVE":
        return list(ins.Values)
    return []


def signature(ins):
    """opcode(kinds of the operand types): the mechanism part of a VM-exception key"""
    try:
        ks = []
        for v in operand_values(ins):
            k = _kind(getattr(v, "Type", None))
            ks.append(k.lower() if k != "?" else "?")
        return "%s(%s)" % (ins.OpCode.name, ",".join(ks))
    except Exception:
        return ins.OpCode.name


def declared_extent(t):
    """number of valid indices of the outermost dimension of an IR type, or None"""
    k = _kind(t)
    try:
        if k == "Vector":
            return t.Size
        if k == "Matrix":
            return t.RowCount
        if k == "Array":
            return t.Size[0]
    except Exception:
        return None
    return None


class Observer:
    def __init__(self, frames=False, defuse=True, index=True, globals_mon=False, coverage=True):
        self.opt_frames = frames
        self.opt_defuse = defuse
        self.opt_index = index
        self.opt_globals = globals_mon
        self.opt_cov = coverage
        self.opcodes = collections.Counter()
        self.total_steps = 0
        self.total_calls = 0
        self.total_frame_checks = 0
        self.reset(None)

    # ---------------------------------------------------------------- control
    def reset(self, budget):
        """start observing one top-level Invoke"""
        self.budget = budget
        self.steps = 0
        self.stack = []
        self.events = []           # violations of monitors: dicts with 'kind'
        self.index_oob = False     # an index outside its declared range was observed
        self.index_events = 0
        self.calls = 0
        self.frame_checks = 0
        self.callee_stores = 0     # STOREs to argument/local executed at depth >= 2
        self.max_depth = 0
        self.ops_run = set()
        self.branches = 0
        self.backedges = 0
        self.harness_errors = []
        self._gdigest = None
        self._g_lastop = None
        self.cur_ins = None

    def _event(self, kind, **kw):
        if len(self.events) < 20:
            d = {"kind": kind}
            d.update(kw)
            self.events.append(d)

    # ------------------------------------------------------------------ hooks
    def enter(self, ctx, function, args, localScope, globalScope):
        self.stack.append(_Act(function))
        if len(self.stack) > self.max_depth:
            self.max_depth = len(self.stack)

    def step(self, ctx, function, pc, ins, args, localScope, globalScope):
        self.steps += 1
        self.total_steps += 1
        if self.budget is not None and self.steps > self.budget:
            raise VerifStepLimit()
        try:
            self._step(function, pc, ins, args, localScope, globalScope)
        except (VerifStepLimit, RecursionError):
            raise
        except Exception as e:  # the monitor must never perturb the run it observes
            if len(self.harness_errors) < 5:
                self.harness_errors.append("%s: %s" % (type(e).__name__, e))

    def _step(self, function, pc, ins, args, localScope, globalScope):
        act = self.stack[-1]
        opname = ins.OpCode.name
        self.cur_ins = (function.Name, pc, opname, ins)
        if self.opt_cov:
            self.opcodes[opname] += 1
            self.ops_run.add(opname)
        if act.pending is not None:
            self._check_pending(act, args, localScope)
        if self.opt_globals:
            d = repr(globalScope)
            if self._gdigest is not None and d != self._gdigest:
                lo = self._g_lastop
                if not (lo in ("STORE_GLOBAL", "STORE_ARRAY", "STORE_MEMBER", "CALL", "RETURN")):
                    self._event("globals-changed-without-store", after=lo, fn=function.Name, pc=pc)
            self._gdigest = d
            self._g_lastop = opname
            if opname == "STORE":
                try:
                    if ins.Scope.name == "GLOBAL":
                        self._g_lastop = "STORE_GLOBAL"
                except Exception:
                    pass
        if self.opt_defuse:
            for v in operand_values(ins):
                ref = getattr(v, "Reference", None)
                if ref is None:
                    self._event("operand-not-a-value", fn=function.Name, pc=pc, op=opname, operand=repr(v)[:40])
                elif ref not in localScope:
                    self._event("read-of-undefined-value", fn=function.Name, pc=pc, op=opname, ref=ref)
            if opname == "LOAD" and ins.Scope.name == "FUNCTION_LOCAL" and ins.Variable not in localScope:
                self._event("read-of-undeclared-local", fn=function.Name, pc=pc, name=str(ins.Variable))
        if self.opt_index and opname in ("LOAD_ARRAY", "STORE_ARRAY", "VECTOR_GET", "VECTOR_SET",
                                         "MATRIX_GET", "MATRIX_SET"):
            self.index_events += 1
            ext = declared_extent(ins.Array.Type)
            idx = localScope.get(ins.Index.Reference)
            if ext is None:
                # the operand's static type does not say (after load forwarding the indexed operand can be an earlier
                # VECTOR_SET / STORE_ARRAY result, which the lowering types with the element type): the run-time value does
                held = localScope.get(getattr(ins.Array, "Reference", None))
                if isinstance(held, list):
                    ext = len(held)
            if ext is None or not isinstance(idx, int) or isinstance(idx, bool):
                if not isinstance(idx, int):
                    self._event("non-integer-index", fn=function.Name, pc=pc, value=repr(idx)[:30])
            elif idx < 0 or idx >= ext:
                self.index_oob = True
        if opname == "NEW_VARIABLE":
            act.names[ins.Name] = _kind(ins.Type)
        elif opname == "STORE" and len(self.stack) >= 2:
            try:
                if ins.Scope.name in ("FUNCTION_ARGUMENT", "FUNCTION_LOCAL"):
                    self.callee_stores += 1
            except Exception:
                pass
        elif opname == "BRANCH":
            self.branches += 1
            try:
                if ins.Predicate is None and ins.TrueBlock is not None:
                    pass
            except Exception:
                pass
        elif opname == "CALL":
            self.calls += 1
            self.total_calls += 1
            if self.opt_frames:
                named = {}
                for name, kind in act.names.items():
                    if kind in _VALUE_KINDS and name in localScope:
                        named[name] = _snap(localScope[name])
                argsnap = [(_snap(a) if (i < len(act.argkinds) and act.argkinds[i] in _VALUE_KINDS) else None)
                           for i, a in enumerate(args)]
                act.pending = (argsnap, named, id(args), id(localScope), pc, len(args))
        act.nsteps += 1
        act.last_op = opname

    def _check_pending(self, act, args, localScope):
        argsnap, named, args_id, ls_id, pc, nargs = act.pending
        act.pending = None
        self.total_frame_checks += 1
        self.frame_checks += 1
        fn = act.fn.Name
        if len(args) != nargs:
            self._event("caller-args-changed", fn=fn, pc=pc, detail="argument count %d -> %d" % (nargs, len(args)),
                        rebound=id(args) != args_id)
        else:
            for i, s in enumerate(argsnap):
                if s is None:
                    continue
                if not _same(s, args[i]):
                    self._event("caller-args-changed", fn=fn, pc=pc, index=i, before=repr(s)[:60],
                                after=repr(args[i])[:60], rebound=id(args) != args_id)
                    break
        for name, s in named.items():
            if name not in localScope:
                self._event("caller-local-vanished", fn=fn, pc=pc, name=name, shared_scope=id(localScope) != ls_id)
                break
            if not _same(s, localScope[name]):
                self._event("caller-local-changed", fn=fn, pc=pc, name=name, before=repr(s)[:60],
                            after=repr(localScope[name])[:60])
                break

    def exit(self, ctx, function, args, localScope, value):
        try:
            if self.stack:
                act = self.stack[-1]
                if act.pending is not None:
                    self._check_pending(act, args, localScope)
                self.stack.pop()
        except Exception as e:
            if len(self.harness_errors) < 5:
                self.harness_errors.append("%s: %s" % (type(e).__name__, e))
