"""Probe on the real AST at the `add-implicit-casts` boundary: at *every* binary operator node, however deeply nested,
the operands (after the implicit conversions the pass inserted) must have the types the language defines for
(operator, type of the left operand as written, type of the right operand as written).  The operand "as written" is what
an implicit CastExpression wraps.  Used by C09 (nested expressions) — a single `a op b` cannot show a conversion that is
dropped only under nesting."""
from ..ref import typing as tspec
from .contracts import my_type

OPNAME = {"ADD": "+", "SUB": "-", "MUL": "*", "DIV": "/", "MOD": "%", "CMP_GT": ">", "CMP_LT": "<", "CMP_LE": "<=",
          "CMP_GE": ">=", "CMP_NE": "!=", "CMP_EQ": "==", "LG_OR": "||", "LG_AND": "&&"}


def _children(node):
    out = []
    try:
        node.ForEachChild(lambda c, ctx=None: out.append(c))
    except Exception:
        pass
    return out


def _unwrap(e):
    if type(e).__name__ == "CastExpression" and e.IsImplicit():
        return e.GetArgument()
    return e


def binary_conversions(root, findings, counters, depth=0, nest=0):
    """appends (op, L written, R written, L after, R after, L defined, R defined, nesting depth) for every node that
    deviates; counters['nodes'] / ['nested_nodes'] count what was judged"""
    if depth > 300 or root is None:
        return
    k = type(root).__name__
    inner = nest
    if k == "BinaryExpression":
        inner = nest + 1
        try:
            op = OPNAME.get(root.GetOperation().name)
            l, r = root.GetLeft(), root.GetRight()
            L0, R0 = my_type(_unwrap(l).GetType()), my_type(_unwrap(r).GetType())
            L1, R1 = my_type(l.GetType()), my_type(r.GetType())
            if op is not None and L0 is not None and R0 is not None:
                s = tspec.spec(op, L0, R0)
                if s[0] == tspec.OK and s[2] is not None:
                    counters["nodes"] = counters.get("nodes", 0) + 1
                    if nest:
                        counters["nested_nodes"] = counters.get("nested_nodes", 0) + 1
                    if L1 != L0 or R1 != R0:
                        counters["nodes_with_a_conversion"] = counters.get("nodes_with_a_conversion", 0) + 1
                    if not (tspec.matches(s[2], L1) and tspec.matches(s[3], R1)):
                        findings.append((op, L0, R0, L1, R1, s[2], s[3], nest))
        except Exception as ex:
            counters["probe_errors"] = counters.get("probe_errors", 0) + 1
            counters["last_probe_error"] = "%s: %s" % (type(ex).__name__, ex)
    for c in _children(root):
        binary_conversions(c, findings, counters, depth + 1, inner)
