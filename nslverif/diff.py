"""Differential execution of one generated program: real compiler + VM (observed) against
RefSem on the generator tree.  Shared by C01-C05, C11, C12, C15."""
from . import nslapi
from .lang import print_module, is_vec, is_mat, is_scalar
from .mon import vmobs
from .ref import sem


class Compiled:
    """one source compiled (at one optimisation level) and linked with the real toolchain"""

    def __init__(self, source, optimize=False, listener=None):
        self.source = source
        self.optimize = optimize
        self.out = nslapi.compile_source(source, optimize=optimize, listener=listener)
        self.program = None
        self.link_exc = None
        if self.out.usable:
            try:
                with nslapi.quiet():
                    self.program = nslapi.link([self.out.ir])
            except Exception as e:
                self.link_exc = nslapi.exc_info(e)

    @property
    def runnable(self):
        return self.program is not None


def copy_value(v):
    return sem.deep_copy(v)


class VMRun:
    __slots__ = ("status", "value", "globals", "exc", "events", "steps", "oob", "calls", "ops",
                 "callee_stores", "harness", "where", "branches", "depth")


def run_vm(compiled, fname, args, globals_init, obs, budget):
    """Invoke on a fresh VM of the linked program.  status: ok | exception | nonterminating"""
    r = VMRun()
    r.value = None
    r.globals = {}
    r.exc = None
    r.where = None
    vm = nslapi.make_vm(compiled.program)
    for k, v in globals_init.items():
        vm.SetGlobal(k, copy_value(v))
    obs.reset(budget)
    nslapi.set_observer(obs)
    try:
        try:
            r.value = vm.Invoke(fname, **{k: copy_value(v) for k, v in args.items()})
            r.status = "ok"
        except vmobs.VerifStepLimit:
            r.status = "nonterminating"
        except RecursionError:
            r.status = "exception"
            r.exc = {"cls": "RecursionError", "msg": "", "where": "VM", "line": 0}
        except Exception as e:
            r.status = "exception"
            r.exc = nslapi.exc_info(e)
        r.where = obs.cur_ins
    finally:
        nslapi.set_observer(None)
    if r.status == "ok":
        for k in globals_init:
            try:
                r.globals[k] = vm.GetGlobal(k)
            except Exception as e:
                r.globals[k] = "<GetGlobal raised %s>" % type(e).__name__
    r.events = list(obs.events)
    r.steps = obs.steps
    r.oob = obs.index_oob
    r.calls = obs.calls
    r.ops = set(obs.ops_run)
    r.callee_stores = obs.callee_stores
    r.harness = list(obs.harness_errors)
    r.branches = obs.branches
    r.depth = obs.max_depth
    return r


class RefRun:
    __slots__ = ("status", "value", "globals", "steps", "why", "float_ops", "max_mag", "calls")


def run_ref(module, fname, args, globals_init, f32_mode=False, max_steps=400000):
    r = RefRun()
    it = sem.Interp(module, globals_init, f32_mode=f32_mode, max_steps=max_steps)
    r.value = None
    r.globals = None
    r.why = None
    try:
        r.value = it.call(fname, args)
        r.status = "ok"
        r.globals = it.globals
    except sem.OutOfDomain as e:
        r.status = "ood"
        r.why = str(e)
    except sem.RefTimeout:
        r.status = "timeout"
    except RecursionError:
        r.status = "ood"
        r.why = "python recursion"
    r.steps = it.steps
    r.float_ops = it.float_ops
    r.max_mag = it.max_mag
    r.calls = it.calls
    return r


def vm_budget(ref_steps):
    return 50 * ref_steps + 10000


def compare(ref, vm, globals_names, tol=1e-9):
    """None when the VM run agrees with the reference run, else a short description"""
    if vm.status == "nonterminating":
        return "VM exceeded %d instructions where the reference finished in %d steps" % (vm.steps, ref.steps)
    if vm.status == "exception":
        return "VM raised %s (%s) at %s" % (vm.exc["cls"], vm.exc["msg"][:80], vm.where)
    if not sem.values_equal(ref.value, vm.value, tol):
        return "returned %r, source semantics give %r" % (vm.value, ref.value)
    for g in globals_names:
        if not sem.values_equal(ref.globals[g], vm.globals.get(g), tol):
            return "global %s = %r after the call, source semantics give %r" % (g, vm.globals.get(g), ref.globals[g])
    return None


def mech_key_exception(prefix, exc, where=None):
    k = "%s:%s:%s" % (prefix, exc["cls"], exc.get("where", "?"))
    if where:
        k += ":" + str(where[2])
    return k
