"""Differential execution of one generated program: real compiler + VM (observed) against
RefSem on the generator tree.  Shared by C01-C05, C11, C12, C15."""
from . import nslapi
from .lang import print_module, is_vec, is_mat, is_scalar
from .mon import vmobs
from .ref import sem


class Compiled:
    """one source compiled (at one optimisation level) and linked with the real toolchain"""

    def __init__(self, source, optimize=False, listener=None):
        self.source = source
        self.optimize = optimize
        self.out = nslapi.compile_source(source, optimize=optimize, listener=listener)
        self.program = None
        self.link_exc = None
        if self.out.usable:
            try:
                with nslapi.quiet():
                    self.program = nslapi.link([self.out.ir])
            except Exception as e:
                self.link_exc = nslapi.exc_info(e)

    @property
    def runnable(self):
        return self.program is not None


def split_for_import(module, libname="callee_lib", part="all"):
    """(library Module, main Module): the non-exported functions moved into a library that the rest imports.  None when
    the program cannot be cut that way (a helper touching a global or calling an exported function, structure types,
    no helper, helpers nobody else calls)."""
    from .lang import N, Call, Var, Module
    if module.structs or module.imports:
        return None
    helpers = [f for f in module.funcs if not f.exported]
    rest = [f for f in module.funcs if f.exported]
    if not helpers or not rest:
        return None
    gnames = {n for _, n in module.globals}
    exported_names = {f.name for f in rest}
    bad = []

    def walk(n, local_names):
        if isinstance(n, Call) and n.name in exported_names:
            bad.append(n.name)
        if isinstance(n, Var) and n.name in gnames and n.name not in local_names:
            bad.append(n.name)
        if isinstance(n, list):
            for x in n:
                walk(x, local_names)
        elif isinstance(n, N):
            for k in n.__slots__:
                if k == "fn":
                    continue
                v = getattr(n, k)
                if isinstance(v, (N, list)):
                    walk(v, local_names)

    for h in helpers:
        if {n for _, n in h.params} & gnames:
            return None
        walk(h.body, set())
    if bad:
        return None
    if part != "all":
        # only every other helper moves into the library (an overload set is then spread over the library and the importing
        # module: one name, declarations on both sides); a moved helper must not call one that stays behind
        moved = [h for i, h in enumerate(helpers) if i % 2 == (0 if part == "even" else 1)]
        changed = True
        while changed:
            changed = False
            names = {id(h) for h in moved}
            for h in list(moved):
                calls = []

                def w2(n):
                    if isinstance(n, Call) and n.fn is not None and not n.fn.exported and id(n.fn) not in names:
                        calls.append(n.name)
                    if isinstance(n, list):
                        for x in n:
                            w2(x)
                    elif isinstance(n, N):
                        for k in n.__slots__:
                            if k == "fn":
                                continue
                            v = getattr(n, k)
                            if isinstance(v, (N, list)):
                                w2(v)
                w2(h.body)
                if calls:
                    moved.remove(h)
                    changed = True
        if not moved or len(moved) == len(helpers):
            return None
        stay = [h for h in helpers if all(h is not m for m in moved)]
        return Module(funcs=moved), Module(globals=list(module.globals), funcs=stay + rest, imports=[libname])
    return Module(funcs=helpers), Module(globals=list(module.globals), funcs=rest, imports=[libname])


class CompiledSplit:
    """two sources: a library compiled and stored first, and a main module importing it by name, compiled next to it and
    linked through the filesystem loader (all inside a private directory)"""
    _count = 0

    def __init__(self, lib_source, main_source, libname="callee_lib", optimize=False):
        import os
        import pickle
        import shutil
        import tempfile
        self.source = main_source
        self.optimize = optimize
        self.program = None
        self.link_exc = None
        self.lib_out = None
        tmp = tempfile.mkdtemp(prefix="nslverif_split_")
        old = os.getcwd()
        try:
            os.chdir(tmp)
            self.lib_out = nslapi.compile_source(lib_source, optimize=optimize)
            self.out = self.lib_out
            if not self.lib_out.usable:
                return
            with open(libname + ".nslir", "wb") as f:
                pickle.dump(self.lib_out.ir, f)
            self.out = nslapi.compile_source(main_source, optimize=optimize)
            if self.out.usable:
                try:
                    with nslapi.quiet():
                        # alternately a fresh loader and the linker's own default loader (one object per process, while
                        # this process links many programs whose library has the same name)
                        CompiledSplit._count += 1
                        if CompiledSplit._count % 2:
                            lk = nslapi.LinearIR.Linker()
                            lk.AddModule(self.out.ir)
                            self.program = lk.Link()
                        else:
                            self.program = nslapi.link([self.out.ir], loader=nslapi.LinearIR.FilesystemModuleLoader())
                except Exception as e:
                    self.link_exc = nslapi.exc_info(e)
        finally:
            os.chdir(old)
            shutil.rmtree(tmp, ignore_errors=True)

    @property
    def runnable(self):
        return self.program is not None


class _Sources(str):
    """the main module's text, carrying the texts of all modules of a split program for the replay record"""

    def __new__(cls, text, sources):
        o = str.__new__(cls, text)
        o.sources = dict(sources)
        return o


def copy_value(v):
    return sem.deep_copy(v)


class VMRun:
    __slots__ = ("status", "value", "globals", "exc", "events", "steps", "oob", "calls", "ops",
                 "callee_stores", "harness", "where", "branches", "depth", "sig", "passed", "frame_checks")


def run_vm(compiled, fname, args, globals_init, obs, budget):
    """Invoke on a fresh VM of the linked program.  status: ok | exception | nonterminating"""
    r = VMRun()
    r.value = None
    r.globals = {}
    r.exc = None
    r.where = None
    r.sig = None
    vm = nslapi.make_vm(compiled.program)
    for k, v in globals_init.items():
        vm.SetGlobal(k, copy_value(v))
    obs.reset(budget)
    nslapi.set_observer(obs)
    passed = {k: copy_value(v) for k, v in args.items()}
    r.passed = passed
    try:
        try:
            r.value = vm.Invoke(fname, **passed)
            r.status = "ok"
        except vmobs.VerifStepLimit:
            r.status = "nonterminating"
        except RecursionError:
            r.status = "exception"
            r.exc = {"cls": "RecursionError", "msg": "", "where": "VM", "line": 0}
        except Exception as e:
            r.status = "exception"
            r.exc = nslapi.exc_info(e)
        r.where = obs.cur_ins[:3] if obs.cur_ins else None
        r.sig = vmobs.signature(obs.cur_ins[3]) if (obs.cur_ins and r.status == "exception") else None
    finally:
        nslapi.set_observer(None)
    if r.status == "ok":
        for k in globals_init:
            try:
                r.globals[k] = vm.GetGlobal(k)
            except Exception as e:
                r.globals[k] = "<GetGlobal raised %s>" % type(e).__name__
    r.events = list(obs.events)
    r.steps = obs.steps
    r.oob = obs.index_oob
    r.calls = obs.calls
    r.ops = set(obs.ops_run)
    r.callee_stores = obs.callee_stores
    r.harness = list(obs.harness_errors)
    r.branches = obs.branches
    r.depth = obs.max_depth
    r.frame_checks = obs.frame_checks
    return r


class RefRun:
    __slots__ = ("status", "value", "globals", "steps", "why", "float_ops", "max_mag", "calls", "sum_ops")


def run_ref(module, fname, args, globals_init, f32_mode=False, max_steps=400000, floor_mod=False, wide_literals=False):
    r = RefRun()
    it = sem.Interp(module, globals_init, f32_mode=f32_mode, max_steps=max_steps, floor_mod=floor_mod, wide_literals=wide_literals)
    r.value = None
    r.globals = None
    r.why = None
    try:
        r.value = it.call(fname, args)
        r.status = "ok"
        r.globals = it.globals
    except sem.OutOfDomain as e:
        r.status = "ood"
        r.why = str(e)
    except sem.RefTimeout:
        r.status = "timeout"
    except RecursionError:
        r.status = "ood"
        r.why = "python recursion"
    r.steps = it.steps
    r.float_ops = it.float_ops
    r.sum_ops = it.sum_ops
    r.max_mag = it.max_mag
    r.calls = it.calls
    return r


def vm_budget(ref_steps):
    return 50 * ref_steps + 10000


def compare(ref, vm, globals_names, tol=1e-9):
    """None when the VM run agrees with the reference run, else a short description"""
    if vm.status == "nonterminating":
        return "VM exceeded %d instructions where the reference finished in %d steps" % (vm.steps, ref.steps)
    if vm.status == "exception":
        return "VM raised %s (%s) at %s" % (vm.exc["cls"], vm.exc["msg"][:80], vm.where)
    if not sem.values_equal(ref.value, vm.value, tol):
        return "returned %r, source semantics give %r" % (vm.value, ref.value)
    for g in globals_names:
        if not sem.values_equal(ref.globals[g], vm.globals.get(g), tol):
            return "global %s = %r after the call, source semantics give %r" % (g, vm.globals.get(g), ref.globals[g])
    return None


def mech_key_exception(prefix, exc, where=None):
    k = "%s:%s:%s" % (prefix, exc["cls"], exc.get("where", "?"))
    if where:
        k += ":" + str(where[2])
    return k


UNDEF_EVENTS = ("read-of-undefined-value", "operand-not-a-value", "read-of-undeclared-local")


def check_program(R, obs, name, module, fname, inputs, family, require_accept=True, optimize=False, tol=1e-9,
                  extra_events=(), source=None, family_of=None, split=None):
    """(`fname` may be a list of (function name, inputs) pairs with inputs=None: one compilation, many calls;
    family_of(fname) then gives the mechanism family per function.)
    Compile `module` with the real compiler, run `fname` on every input on the real VM under the
    observer, compare with RefSem.  Records violations in R.  Returns a dict:
    source, accepted, runnable, compiled (diff.Compiled), runs [(RefRun|None, VMRun|None) per input], bad (count)."""
    src = source if source is not None else print_module(module)
    if split is not None:
        # the same program with its helper functions in an imported library: RefSem still runs the one-module tree
        lib_m, main_m = split
        lib_src, src = print_module(lib_m), print_module(main_m)
        comp = CompiledSplit(lib_src, src, main_m.imports[0], optimize=optimize)
        src = _Sources(src, {"main": src, main_m.imports[0]: lib_src})
    else:
        comp = Compiled(src, optimize=optimize)
    out = {"source": src, "accepted": comp.out.accepted, "runnable": False, "compiled": comp, "runs": [], "bad": 0}
    R.count("programs")
    if not comp.out.accepted:
        R.count("rejected")
        if require_accept:
            rj = comp.out.reject
            R.violation("rejected:%s:%s:%s" % (family, rj["name"], rj["cls"]),
                        "well-typed program rejected by %s (%s %s)" % (rj["name"], rj["cls"], rj["msg"][:80]),
                        {"sources": getattr(src, "sources", {"main": src}), "case": name, "reject": rj})
            out["bad"] += 1
        return out
    if not comp.runnable:
        exc = comp.out.post_exc or comp.link_exc
        R.violation("compile-crash:%s:%s:%s" % (family, exc["cls"], exc.get("where")),
                    "accepted program fails after the front end: %s %s" % (exc["cls"], exc["msg"][:80]),
                    {"sources": getattr(src, "sources", {"main": src}), "case": name, "exc": exc})
        out["bad"] += 1
        return out
    out["runnable"] = True
    gnames = [n for _, n in module.globals]
    calls = fname if inputs is None else [(fname, inputs)]
    for fname_, inputs_ in calls:
        _run_calls(R, obs, name, module, comp, src, fname_, inputs_, family, optimize, tol, extra_events, gnames, out,
                   family_of=family_of)
    for o in obs.ops_run:
        R.add_to("opcodes", o)
    return out


def _run_calls(R, obs, name, module, comp, src, fname, inputs, family, optimize, tol, extra_events, gnames, out, family_of=None):
    if family_of is not None:
        family = family_of(fname)
    for args, gl in inputs:
        ref = run_ref(module, fname, args, gl)
        R.evaluations += 1
        if ref.status != "ok":
            R.count("dropped_" + ref.status)
            out["runs"].append((ref, None))
            continue
        vm = run_vm(comp, fname, args, gl, obs, vm_budget(ref.steps))
        out["runs"].append((ref, vm))
        R.count("vm_runs")
        R.count("vm_instructions", vm.steps)
        if vm.harness:
            R.inconclusive.append("observer error: " + vm.harness[0])
        # every float operation is written in the source and both sides compute in double precision: results must be
        # identical, except that the order in which a matrix product adds its terms is not written anywhere
        exact = ref.sum_ops == 0
        R.count("compared_exactly" if exact else "compared_within_tolerance")
        bad = compare(ref, vm, gnames, 0.0 if exact else tol)
        watch = UNDEF_EVENTS + tuple(extra_events)
        for ev in vm.events:
            if ev["kind"] in watch and bad is None:
                bad = "monitor: %s at %s" % (ev["kind"], ev)
        if bad is not None:
            out["bad"] += 1
            if vm.status == "exception":
                key = "vm-exception:%s:%s:%s" % (family, vm.exc["cls"], vm.sig or (vm.where[2] if vm.where else "?"))
            elif vm.status == "nonterminating":
                key = "nonterminating:%s" % family
            elif bad.startswith("monitor:"):
                key = "monitor:%s:%s" % (family, bad.split()[1])
            else:
                key = "mismatch:%s" % family
            R.violation(key, "%s: %s" % (name, bad),
                        {"sources": getattr(src, "sources", {"main": src}), "case": name, "function": fname, "optimize": optimize,
                         "inputs": {"args": args, "globals": gl},
                         "expected": {"value": ref.value, "globals": ref.globals},
                         "observed": {"status": vm.status, "value": vm.value, "globals": vm.globals, "exc": vm.exc},
                         "events": vm.events})


def replay_program(case):
    """generic replay of a violation recorded by check_program"""
    src = case["sources"]["main"]
    libs = [k for k in case["sources"] if k != "main"]
    if libs:
        comp = CompiledSplit(case["sources"][libs[0]], src, libs[0], optimize=bool(case.get("optimize")))
    else:
        comp = Compiled(src, optimize=bool(case.get("optimize")))
    detail = {"gate": comp.out.gate, "reject": comp.out.reject, "post": comp.out.post_exc}
    if not comp.runnable:
        return True, detail
    if "inputs" not in case:
        return False, detail
    obs = vmobs.Observer(frames=True)
    vm = run_vm(comp, case["function"], case["inputs"]["args"], case["inputs"]["globals"], obs, 2000000)
    detail.update({"status": vm.status, "value": vm.value, "globals": vm.globals, "exc": vm.exc,
                   "expected": case.get("expected"), "events": vm.events})
    exp = case.get("expected") or {}
    ok = vm.status == "ok" and sem.values_equal(exp.get("value"), vm.value) and \
        all(sem.values_equal(v, vm.globals.get(k)) for k, v in (exp.get("globals") or {}).items())
    bad_events = [e for e in vm.events if e["kind"] in UNDEF_EVENTS or e["kind"].startswith("caller-")]
    return (not ok) or bool(bad_events), detail
