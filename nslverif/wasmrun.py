"""Shared by C06/C07/C19: compile with the wasm option through the observing wrapper, obtain the bytes,
judge them with the reference decoder/validator, run exports in the reference interpreter."""
from . import nslapi
from .ref import wasm_decode, wasm_validate, wasm_interp


class Emitted:
    __slots__ = ("out", "refused", "refusal", "data", "module", "decode_error", "validation_error", "instance")

    def __init__(self):
        self.refused = False
        self.refusal = None
        self.data = None
        self.module = None
        self.decode_error = None
        self.validation_error = None
        self.instance = None


def emit(src, optimize=False):
    e = Emitted()
    e.out = nslapi.compile_source(src, optimize=optimize, wasm=True)
    if not e.out.accepted:
        return e
    if e.out.post_exc is not None or e.out.wasm is None:
        e.refused = True
        e.refusal = e.out.post_exc or {"cls": "NoWasmModule", "msg": "", "stage": "?"}
        return e
    try:
        e.data = nslapi.wasm_bytes(e.out.wasm)
    except Exception as ex:
        e.refused = True
        e.refusal = dict(nslapi.exc_info(ex), stage="write")
        return e
    try:
        e.module = wasm_decode.decode(e.data)
    except wasm_decode.DecodeError as d:
        e.decode_error = (d.rule, d.detail, d.offset)
        return e
    try:
        wasm_validate.validate(e.module)
    except wasm_validate.ValidationError as v:
        e.validation_error = (v.rule, v.detail)
    return e


def run_export(e, name, args, max_steps=2000000):
    """('ok', value|None) | ('trap', reason) | ('error', text)"""
    try:
        if e.instance is None:
            e.instance = wasm_interp.Instance(e.module, max_steps=max_steps)
        r = e.instance.invoke(name, list(args))
        return ("ok", r[0] if r else None)
    except wasm_interp.Trap as t:
        return ("trap", t.reason)
    except wasm_interp.StepLimit:
        return ("error", "step limit")
    except Exception as ex:
        return ("error", "%s: %s" % (type(ex).__name__, ex))
