"""Process bootstrap: offline dependencies, repository path, hook guard.

Everything here is import-order sensitive: NSL_VERIF must be in the environment
before ``nsl.VM`` is imported (the guard is read at import time), and a scratch
copy given by NSL_VERIF_REPO must precede the editable install on sys.path.
"""
import os
import subprocess
import sys

VERIF = os.path.dirname(os.path.dirname(os.path.abspath(__file__)))
DEPS = os.path.join(VERIF, ".deps")
WHEELS = "/opt/veriftools/wheels"
PYTHON = "/venv/bin/python"


def repo_path():
    return os.path.abspath(os.environ.get("NSL_VERIF_REPO", "/repo"))


def ensure_deps(quiet=True):
    """Install icontract + jsonschema into the git-ignored .deps when missing."""
    need = []
    for mod in ("icontract", "jsonschema"):
        if not os.path.isdir(os.path.join(DEPS, mod)):
            need.append(mod)
    if need:
        os.makedirs(DEPS, exist_ok=True)
        cmd = [PYTHON, "-m", "pip", "install", "-q", "--no-index", "--find-links", WHEELS,
               "--target", DEPS, "icontract", "jsonschema"]
        r = subprocess.run(cmd, stdout=subprocess.PIPE, stderr=subprocess.STDOUT, text=True)
        if r.returncode != 0:
            raise RuntimeError("offline dependency install failed:\n" + r.stdout)
    return need


def setup_paths():
    os.environ["NSL_VERIF"] = "1"
    rp = repo_path()
    if rp not in sys.path:
        sys.path.insert(0, rp)
    if DEPS not in sys.path:
        sys.path.append(DEPS)
    if VERIF not in sys.path:
        sys.path.insert(0, VERIF)


def worker_env(seed_hash="0"):
    env = dict(os.environ)
    env["NSL_VERIF"] = "1"
    env["PYTHONHASHSEED"] = seed_hash
    env["PYTHONDONTWRITEBYTECODE"] = "1"
    # Page faults are very expensive in this sandbox when many processes allocate at once
    # (measured: 16 parallel allocation-heavy workers ran 10x slower than one).  Keep freed
    # memory inside the process instead of returning it to the kernel.
    env.setdefault("PYTHONMALLOC", "malloc")
    env.setdefault("MALLOC_TRIM_THRESHOLD_", "2000000000")
    env.setdefault("MALLOC_MMAP_THRESHOLD_", "2000000000")
    env.setdefault("MALLOC_TOP_PAD_", "67108864")
    pp = [repo_path(), VERIF]
    if env.get("PYTHONPATH"):
        pp.append(env["PYTHONPATH"])
    env["PYTHONPATH"] = os.pathsep.join(pp)
    return env
