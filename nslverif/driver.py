"""Shard runner, merge, known-finding classification, evidence, verdict.

A check module (nslverif/checks/cXX.py) provides:
  PROPERTY, RULE, LEVEL_NOTE (strings), ASSUMPTIONS (list)
  shards(tier)                         -> number of worker processes
  run_shard(tier, seed, shard, n, R)   -> fills the Result R
  replay(case)                         -> (violated: bool, detail)   [optional]
  finalize(merged, tier)               -> list of inconclusive reasons [optional]
"""
import hashlib
import importlib
import json
import os
import re
import shutil
import subprocess
import sys
import tempfile
import time

from . import bootstrap

EXIT_OK, EXIT_VIOLATION, EXIT_INCONCLUSIVE = 0, 1, 2
MAX_VIOLATION_LINES = 20


class CaseTimeout(BaseException):
    """raised by time_limit() inside a shard when one case exceeds its wall-clock allowance (inconclusive for
    that case: it is dropped and counted, never judged)"""


class time_limit:
    """with time_limit(seconds): ...   — SIGALRM based, main thread of a shard process only"""

    def __init__(self, seconds):
        self.seconds = seconds

    def _fire(self, signum, frame):
        raise CaseTimeout()

    def __enter__(self):
        import signal
        self._old = signal.signal(signal.SIGALRM, self._fire)
        signal.setitimer(signal.ITIMER_REAL, self.seconds)
        return self

    def __exit__(self, et, ev, tb):
        import signal
        signal.setitimer(signal.ITIMER_REAL, 0)
        signal.signal(signal.SIGALRM, self._old)
        return False


def case_hash(*parts):
    h = hashlib.sha256()
    for p in parts:
        h.update(repr(p).encode("utf-8", "replace"))
        h.update(b"\0")
    return h.hexdigest()[:16]


class Result:
    """What one shard observed."""

    def __init__(self):
        self.evaluations = 0
        self.nontrivial = set()
        self.counters = {}
        self.maxima = {}
        self.sets = {}
        self.samples = []
        self.violations = {}     # key -> dict(key, what, replay, count)
        self.inconclusive = []
        self.flags = {}

    def count(self, name, n=1):
        self.counters[name] = self.counters.get(name, 0) + n

    def maximum(self, name, v):
        if v > self.maxima.get(name, float("-inf")):
            self.maxima[name] = v

    def add_to(self, name, item):
        self.sets.setdefault(name, set()).add(item)

    def sample(self, s, limit=4):
        if len(self.samples) < limit:
            self.samples.append(s)

    def nontriv(self, *parts):
        self.nontrivial.add(case_hash(*parts))

    def violation(self, key, what, replay):
        v = self.violations.get(key)
        if v is None:
            if len(self.violations) >= 200:
                self.count("violations_dropped")
                return
            self.violations[key] = {"key": key, "what": what, "replay": replay, "count": 1}
        else:
            v["count"] += 1

    def to_json(self):
        return {"evaluations": self.evaluations, "nontrivial": sorted(self.nontrivial),
                "counters": self.counters, "maxima": self.maxima,
                "sets": {k: sorted(v, key=str) for k, v in self.sets.items()},
                "samples": self.samples, "violations": list(self.violations.values()),
                "inconclusive": self.inconclusive, "flags": self.flags}


def load_check(cid):
    return importlib.import_module("nslverif.checks." + cid.lower())


def load_known():
    p = os.path.join(bootstrap.VERIF, "known_findings.json")
    if not os.path.exists(p):
        return {"known": [], "fixed": []}
    with open(p) as f:
        return json.load(f)


def _in_big_frame(fn):
    """CPython 3.12 keeps interpreter frames in 16 KB 'data stack chunks' that are mmap'ed when the call
    depth crosses a chunk boundary and munmap'ed when it drops back: an interpreter loop that happens to sit
    at a boundary and calls a Python function per instruction (the VM hook does) pays one mmap/munmap pair
    per call (measured: 28 000 pairs in a 4 s shard, 10x slowdown with 16 shards in this sandbox).  Running
    the shard below one frame with > 1 MB of local-variable slots makes CPython allocate a single 2 MB chunk
    with ~1 MB of room, so nested frames no longer cross chunk boundaries."""
    try:
        n = 140000
        # (a call with many arguments does not work: the compiler builds the argument tuple incrementally;
        # local variables do count towards the frame size)
        src = "def _big(fn):\n    if fn is None:\n        " + " = ".join("v%d" % i for i in range(n)) + " = None\n    return fn()\n"
        ns = {}
        exec(compile(src, "<bigframe>", "exec"), ns)
        big = ns["_big"]
        if big.__code__.co_nlocals < n:
            return fn()
    except Exception:
        return fn()
    return big(fn)


def worker_main(argv):
    """entry of one shard process: run.py --worker CID TIER SEED SHARD N OUT"""
    cid, tier, seed, shard, n, outp = argv[0], argv[1], int(argv[2]), int(argv[3]), int(argv[4]), argv[5]
    R = Result()
    t0 = time.time()
    cov = _start_line_coverage("%s_%d" % (cid, shard))
    try:
        mod = load_check(cid)
        _in_big_frame(lambda: mod.run_shard(tier, seed, shard, n, R))
    except BaseException as e:  # harness failure => inconclusive
        import traceback
        R.inconclusive.append("harness error in shard %d: %s: %s | %s" % (
            shard, type(e).__name__, e, traceback.format_exc(limit=6).replace("\n", " / ")[-500:]))
    R.counters["shard_wall_ms"] = int((time.time() - t0) * 1000)
    if cov is not None:
        cov.stop()
        cov.save()
    with open(outp, "w") as f:
        json.dump(R.to_json(), f)


def _start_line_coverage(tag):
    """diagnostic only (tools/cover.sh): with NSL_VERIF_COVER=<dir> every shard records which lines of the nsl package
    its workload reached, so that unreached code can be read and the generators widened.  Never used by a verdict."""
    d = os.environ.get("NSL_VERIF_COVER")
    if not d:
        return None
    try:
        import coverage
    except ImportError:
        return None
    os.makedirs(d, exist_ok=True)
    c = coverage.Coverage(data_file=os.path.join(d, "cov." + tag + ".%d" % os.getpid()),
                          include=[os.path.join(bootstrap.repo_path(), "nsl", "*"), os.path.join(bootstrap.repo_path(), "*.py")])
    c.start()
    return c


def _safe(key):
    return re.sub(r"[^A-Za-z0-9_.-]+", "_", key)[:120]


def run_check(cid, tier="quick", seed=0, replay_path=None, nshards=None, quiet=False):
    t0 = time.time()
    cid = cid.upper()
    bootstrap.ensure_deps()
    bootstrap.setup_paths()
    mod = load_check(cid)
    if replay_path is not None:
        return run_replay(cid, mod, replay_path)

    # rebuild from the current working tree: the only derived artefact is PLY's table file
    from . import nslapi
    try:
        nslapi.ensure_parser_tables()
    except BaseException as e:
        print("INCONCLUSIVE property=%s reason=parser tables could not be built: %s: %s" % (cid, type(e).__name__, e))
        return EXIT_INCONCLUSIVE

    n = nshards or mod.shards(tier)
    tmp = tempfile.mkdtemp(prefix="nslverif_")
    env = bootstrap.worker_env()
    env["VERIF_TIER"] = tier
    # every scratch directory a shard (or a tool it starts) makes lives below this run's directory, which is removed
    # below even when a shard had to be killed by the watchdog
    scratch = os.path.join(tmp, "scratch")
    os.makedirs(scratch, exist_ok=True)
    env["TMPDIR"] = scratch
    timeout = getattr(mod, "SHARD_TIMEOUT", {"quick": 600, "thorough": 5400})[tier]
    procs = []
    try:
        for i in range(n):
            outp = os.path.join(tmp, "shard%d.json" % i)
            cmd = [bootstrap.PYTHON, os.path.join(bootstrap.VERIF, "run.py"), "--worker",
                   cid, tier, str(seed), str(i), str(n), outp]
            log = open(os.path.join(tmp, "shard%d.log" % i), "w")
            procs.append((i, outp, subprocess.Popen(cmd, env=env, stdout=log, stderr=subprocess.STDOUT,
                                                    cwd=bootstrap.VERIF), log))
        merged = Result()
        deadline = time.time() + timeout
        for i, outp, p, log in procs:
            try:
                p.wait(timeout=max(1, deadline - time.time()))
            except subprocess.TimeoutExpired:
                p.kill()
                p.wait()
                merged.inconclusive.append("shard %d exceeded the %ds watchdog" % (i, timeout))
                log.close()
                continue
            log.close()
            if not os.path.exists(outp):
                tail = open(os.path.join(tmp, "shard%d.log" % i)).read()[-600:]
                merged.inconclusive.append("shard %d died (exit %s): %s" % (i, p.returncode, tail.replace("\n", " / ")))
                continue
            with open(outp) as f:
                d = json.load(f)
            merged.evaluations += d["evaluations"]
            merged.nontrivial.update(d["nontrivial"])
            for k, v in d["counters"].items():
                merged.counters[k] = merged.counters.get(k, 0) + v
            for k, v in d["maxima"].items():
                merged.maximum(k, v)
            for k, v in d["sets"].items():
                merged.sets.setdefault(k, set()).update(v)
            for s in d["samples"]:
                merged.sample(s, limit=6)
            for v in d["violations"]:
                cur = merged.violations.get(v["key"])
                if cur is None:
                    merged.violations[v["key"]] = v
                else:
                    cur["count"] += v["count"]
            merged.inconclusive.extend(d["inconclusive"])
            for k, v in d["flags"].items():
                merged.flags[k] = merged.flags.get(k, True) and v
    finally:
        for _, _, p, _ in procs:
            if p.poll() is None:
                p.kill()
        shutil.rmtree(tmp, ignore_errors=True)

    if hasattr(mod, "finalize"):
        try:
            merged.inconclusive.extend(mod.finalize(merged, tier) or [])
        except Exception as e:
            merged.inconclusive.append("finalize failed: %s: %s" % (type(e).__name__, e))

    known = load_known()
    known_keys = {k["key"]: k for k in known.get("known", []) if k.get("property") == cid}
    new, old = [], []
    for key, v in sorted(merged.violations.items()):
        (old if key in known_keys else new).append(v)

    wall = time.time() - t0
    write_evidence(cid, mod, tier, seed, merged, new, old, wall)

    for v in old:
        print("KNOWN-FINDING: property=%s %s [%s] (%d cases)" % (cid, known_keys[v["key"]].get("what", v["what"]),
                                                               v["key"], v["count"]))
    rdir = os.path.join(bootstrap.VERIF, "replays", cid)
    for v in new[:MAX_VIOLATION_LINES]:
        os.makedirs(rdir, exist_ok=True)
        path = os.path.join(rdir, _safe(v["key"]) + ".json")
        rep = dict(v["replay"] or {})
        rep.update({"property": cid, "key": v["key"], "what": v["what"], "tier": tier, "seed": seed,
                    "count": v["count"]})
        with open(path, "w") as f:
            json.dump(rep, f, indent=1, default=str)
        print("VIOLATION property=%s replay=%s" % (cid, path))
        print("  key=%s count=%d: %s" % (v["key"], v["count"], v["what"]))
    if len(new) > MAX_VIOLATION_LINES:
        print("  (+%d further distinct violation keys not listed)" % (len(new) - MAX_VIOLATION_LINES))
    for r in merged.inconclusive[:5]:
        print("INCONCLUSIVE property=%s reason=%s" % (cid, r[:700]))
    if not quiet:
        print("%s %s seed=%d: evaluations=%d distinct_nontrivial=%d violations(new=%d known=%d) wall=%.1fs"
              % (cid, tier, seed, merged.evaluations, len(merged.nontrivial), len(new), len(old), wall))
    if new:
        return EXIT_VIOLATION
    if merged.inconclusive:
        return EXIT_INCONCLUSIVE
    return EXIT_OK


def write_evidence(cid, mod, tier, seed, merged, new, old, wall):
    cov = {
        "evaluations": merged.evaluations,
        "distinct_nontrivial": len(merged.nontrivial),
        "rule": getattr(mod, "RULE", ""),
        "samples": merged.samples[:6] or ["<no sample recorded>"],
        "counters": dict(sorted(merged.counters.items())),
        "maxima": merged.maxima,
        "observed_sets": {k: sorted(v, key=str)[:80] for k, v in merged.sets.items()},
        "observed_set_sizes": {k: len(v) for k, v in merged.sets.items()},
        "known_finding_hits": {v["key"]: v["count"] for v in old},
        "new_violation_keys": [v["key"] for v in new][:400],
        "inconclusive": merged.inconclusive[:10],
    }
    if merged.flags:
        cov["exhaustive_subdomains"] = merged.flags
        cov["exhaustive"] = bool(merged.flags) and all(merged.flags.values()) and getattr(mod, "EXHAUSTIVE_ONLY", False)
    ev = {
        "property_id": cid, "tier": tier, "seed": seed, "level": "exploration",
        "coverage": cov,
        "assumptions": list(getattr(mod, "ASSUMPTIONS", [])),
        "wall_s": round(wall, 2),
        "violations": len(new),
    }
    # (a drill against a scratch copy must not overwrite the evidence of /repo itself)
    d = os.environ.get("NSL_VERIF_EVIDENCE_DIR") or os.path.join(bootstrap.VERIF, "evidence")
    os.makedirs(d, exist_ok=True)
    with open(os.path.join(d, cid + ".json"), "w") as f:
        json.dump(ev, f, indent=1, default=str, sort_keys=False)
    try:
        import jsonschema
        with open("/root/.vp/EVIDENCE.schema.json") as f:
            schema = json.load(f)
        jsonschema.validate(ev, schema)
    except ImportError:
        pass
    except FileNotFoundError:
        pass
    except Exception as e:
        merged.inconclusive.append("evidence does not validate: %s" % str(e)[:200])


def run_replay(cid, mod, path):
    with open(path) as f:
        case = json.load(f)
    if not hasattr(mod, "replay"):
        print("replay not supported by %s" % cid)
        return EXIT_INCONCLUSIVE
    violated, detail = mod.replay(case)
    print(json.dumps(detail, indent=1, default=str)[:4000])
    if violated:
        print("VIOLATION property=%s replay=%s" % (cid, path))
        return EXIT_VIOLATION
    print("replay: property held on this case")
    return EXIT_OK
